"""C17 — search_dates is total; hits well-formed, in order.

R1 look-ahead index rule (part of the primitive table, reported under its own id)
R2 exception-escape analysis from dateparser.search.search_dates
R3 result shape: pairwise appends, no reordering, None-or-nonempty, language plumbing
"""
import ast

from ..core.index import iter_own_nodes, iter_own_stmts
from ..core.repo import AnalysisError
from .escape_common import build_effects, report_escapes

LEVEL = "other"
EXPLANATION = (
    "Exception-escape analysis from search_dates over the resolved call graph (primitive may-raise table incl. "
    "the look-ahead index rule seq[i+k] without a bound on i, division by a computed value, dynamic regex "
    "compilation), plus structural rules on how hits are collected (hit and substring appended pairwise, no "
    "sort/set on the flow to the result, None instead of an empty list, one detected language). Decides "
    "totality w.r.t. the modelled operations and the shape/order clauses; does not decide that every "
    "substring is non-blank and occurs in the text."
)
ENTRY = "dateparser.search:search_dates"


def run(ctx, chk):
    ctx.ix.func(ENTRY)
    ef, ex = build_effects(ctx, chk, "C17.R2")
    from ..core.report import Check

    sub = Check("C17", quiet=True)
    report_escapes(ctx, sub, "C17.R2", ef, [ENTRY], floor=60)
    # split the look-ahead findings out as R1
    for o in sub.obligations:
        pass
    n_look = 0
    for rule, construct, ok, detail in sub.obligations:
        is_look = construct.endswith("| IndexError")
        r = "C17.R1" if is_look else "C17.R2"
        n_look += is_look
        chk.instances[r] = chk.instances.get(r, 0) + 1
        chk.obligations.append((r, construct, ok, detail))
        chk.nontrivial.add((r, construct))
    for ident, f in sub.findings.items():
        r = "C17.R1" if f.key.get("exc") == "IndexError" else "C17.R2"
        chk.finding(r, f.key, file=f.construct["file"], function=f.construct["function"],
                    line=f.construct["line"], text=f.construct["text"], why=f.why, path=f.path)
    chk.errors += sub.errors
    chk.floors.update(sub.floors)
    # the look-ahead rule must have something to look at: count guarded + unguarded look-aheads
    from ..core.effects import loop_index_vars

    reach = ctx.cg.reachable([ENTRY])
    look = 0
    for fk in reach:
        f = ctx.ix.funcs[fk]
        idx = loop_index_vars(f)
        for n in iter_own_nodes(f.node):
            if isinstance(n, ast.Subscript) and isinstance(n.slice, ast.BinOp) and isinstance(n.slice.op, ast.Add) \
                    and isinstance(n.slice.left, ast.Name) and n.slice.left.id in idx:
                look += 1
                chk.sample({"rule": "C17.R1", "site": "%s:%d %s" % (fk, n.lineno, ast.unparse(n)),
                            "verdict": "examined (bound guard or covering handler required)"})
    chk.floor("C17.R1", look, 2, "look-ahead subscripts seq[i+k] reachable from search_dates")
    # parallel-index sites B[i] with i the position in another list: each reachable one is an obligation
    # (an unproved one is already a finding through the escape analysis; here the proofs are put on record)
    n_par = 0
    for (fk, sub_t, seq_t), verdict in sorted(ef.parallel_index_log.items()):
        if fk not in reach:
            continue
        n_par += 1
        f = ctx.ix.funcs[fk]
        if not verdict.startswith("UNPROVED"):
            chk.ob("C17.R1", "%s: %s stays inside its list while walking %s" % (f.qual, sub_t, seq_t), True, verdict,
                   key={"function": fk, "construct": "parallel index %s over %s" % (sub_t, seq_t)}, file=f.file, function=f.qual, line=f.node.lineno)
        chk.sample({"rule": "C17.R1", "site": "%s %s over %s" % (fk, sub_t, seq_t), "verdict": verdict})
    chk.floor("C17.R1.parallel", n_par, 8, "subscripts indexed by the position in another list")
    for reason, sites in sorted(ex.used.items()):
        chk.note("exemption (%d sites): %s" % (len(sites), reason))
    chk.assume("operations outside the primitive table raise nothing")
    r3(ctx, chk)
    r4(ctx, chk)
    r5(ctx, chk)


def r4(ctx, chk):
    """non-blank substrings: pieces of a chunk that was split (str.split) may be empty or punctuation only; a substring
    derived from such a piece must be tested before it is reported"""
    rule = "C17.R4"
    ix = ctx.ix
    pf = ix.func("dateparser.search.search:_ExactLanguageSearch.parse_found_objects")
    rets = [s for s in iter_own_stmts(pf.node.body) if isinstance(s, ast.Return) and isinstance(s.value, ast.Tuple)]
    if not rets:
        raise AnalysisError(rule, "parse_found_objects does not return a tuple")
    out_all = [e.id if isinstance(e, ast.Name) else None for e in rets[0].value.elts]
    # which element of the returned tuple holds the substrings: the first argument of the zip() in search_parse
    sp = ix.func("dateparser.search.search:_ExactLanguageSearch.search_parse")
    pos = None
    for n in iter_own_nodes(sp.node):
        if isinstance(n, ast.Assign) and isinstance(n.targets[0], ast.Tuple) and isinstance(n.value, ast.Call) \
                and ast.unparse(n.value.func).endswith("parse_found_objects"):
            unpack = [ast.unparse(e) for e in n.targets[0].elts]
            for z in iter_own_nodes(sp.node):
                if isinstance(z, ast.Call) and isinstance(z.func, ast.Name) and z.func.id == "zip" and z.args and ast.unparse(z.args[0]) in unpack:
                    pos = unpack.index(ast.unparse(z.args[0]))
    if pos is None or pos >= len(out_all) or out_all[pos] is None:
        raise AnalysisError(rule, "cannot tell which list returned by parse_found_objects holds the substrings")
    out_names = {out_all[pos]}

    def splits(f, depth=0):
        """the function (or a project callee, two levels) builds its result with str.split"""
        for n in iter_own_nodes(f.node):
            if isinstance(n, ast.Call) and isinstance(n.func, ast.Attribute) and n.func.attr == "split" and not (
                    isinstance(n.func.value, ast.Name) and n.func.value.id in ("re", "regex")):
                return True
        if depth < 2:
            for site in ctx.cg.sites.get(f.key, []):
                if any(splits(c, depth + 1) for c in site.callees):
                    return True
        return False

    def names_in(e):
        return {x.id for x in ast.walk(e) if isinstance(x, ast.Name)}
    tainted = set()
    src = 0
    for n in iter_own_nodes(pf.node):
        if isinstance(n, ast.Assign) and isinstance(n.value, ast.Call):
            for site in ctx.cg.sites.get(pf.key, []):
                if site.node is n.value and site.callees and all(splits(c) for c in site.callees):
                    for t in n.targets:
                        tainted |= names_in(t)
                    src += 1
    chk.floor(rule, src, 1, "results of splitting an unparsed chunk")
    changed = True
    while changed:
        changed = False
        for n in iter_own_nodes(pf.node):
            new = set()
            if isinstance(n, ast.For) and names_in(n.iter) & tainted:
                new = names_in(n.target)
            elif isinstance(n, ast.Assign) and names_in(n.value) & tainted:
                for t in n.targets:
                    new |= {x.id for x in ast.walk(t) if isinstance(x, ast.Name) and isinstance(x.ctx, ast.Store)}
            elif isinstance(n, ast.Call) and isinstance(n.func, ast.Attribute) and n.func.attr in ("append", "extend", "insert") \
                    and isinstance(n.func.value, ast.Name) and n.args and names_in(n.args[-1]) & tainted:
                new = {n.func.value.id}
            new -= set(x for x in out_all if x)
            if not new <= tainted:
                tainted |= new
                changed = True
    from ..core.ctx import conjuncts, enclosing_tests
    n_sink = 0
    for n in iter_own_nodes(pf.node):
        if isinstance(n, ast.Call) and isinstance(n.func, ast.Attribute) and n.func.attr == "append" and isinstance(n.func.value, ast.Name) \
                and n.func.value.id in out_names and n.args and names_in(n.args[0]) & tainted:
            v = " ".join(ast.unparse(n.args[0]).split())
            facts = {" ".join(ast.unparse(a).split()) for t, pol in enclosing_tests(pf.node, n) for a, p in conjuncts(t, pol) if p}
            if not any(isinstance(a_, ast.Constant) and isinstance(a_.value, str) for a_ in [n.args[0]]):
                n_sink += 1
                ok = bool({v, v + ".strip()", "len(%s) > 0" % v, "%s != ''" % v} & facts)
                chk.ob(rule, "a substring taken from a split piece is reported only when it is not blank", ok,
                       "`%s` can be '' (a piece made of spaces or punctuation only): search_dates then returns ('', datetime)" % v,
                       key={"function": pf.key, "construct": "non-blank guard on " + n.func.value.id + ".append"}, file=pf.file,
                       function=pf.qual, line=n.lineno, text=" ".join(ast.unparse(n).split())[:120])
    chk.floor(rule + ".sinks", n_sink, 1, "reported substrings that come from split pieces")


# ---- R5: the reported substring is made of the original text only ------------------------------------------
ORIG_METHODS = {"strip", "lstrip", "rstrip", "split", "copy", "join"}
ORIG_FUNCS = {"list", "filter", "bool", "tuple"}
ORIG_SELF_CALLS = {"_join_chunk", "_word_split", "_join"}


def _value_names(e):
    """names an expression's VALUE is built from (index positions and keyword `settings=` plumbing excluded)"""
    out = set()

    def walk(x):
        if isinstance(x, ast.Subscript):
            walk(x.value)
            return
        if isinstance(x, ast.Call):
            if isinstance(x.func, ast.Attribute):
                walk(x.func.value)
            for a in x.args:
                walk(a)
            return
        if isinstance(x, ast.Name):
            if x.id not in ORIG_FUNCS:
                out.add(x.id)
            return
        for c in ast.iter_child_nodes(x):
            walk(c)
    walk(e)
    return out


def _bad_ops(e):
    """operations on the value path of the expression that can put foreign characters into the value
    (index and slice positions are not on the value path)"""
    bad = []

    def walk(n):
        if isinstance(n, ast.Subscript):
            walk(n.value)
            return
        if isinstance(n, ast.Call):
            fn = n.func
            if isinstance(fn, ast.Attribute):
                if isinstance(fn.value, ast.Name) and fn.value.id == "self":
                    if fn.attr not in ORIG_SELF_CALLS:
                        bad.append("self.%s()" % fn.attr)
                else:
                    if fn.attr not in ORIG_METHODS:
                        bad.append(".%s()" % fn.attr)
                    if fn.attr == "join" and isinstance(fn.value, ast.Constant):
                        bad.append("pieces re-joined with the constant %r instead of the text's own separator" % fn.value.value)
                    walk(fn.value)
            elif isinstance(fn, ast.Name) and fn.id not in ORIG_FUNCS:
                bad.append("%s()" % fn.id)
            for a in n.args:
                if not (isinstance(a, ast.Name) and a.id in ORIG_FUNCS):
                    walk(a)
            return
        if isinstance(n, ast.Constant):
            if isinstance(n.value, str) and n.value.strip(" .,:()[]-'") != "":
                bad.append("constant %r" % n.value)
            return
        if isinstance(n, (ast.BinOp, ast.JoinedStr)):
            bad.append(type(n).__name__)
            return
        for c in ast.iter_child_nodes(n):
            walk(c)
    walk(e)
    return bad


def _orig_closure(f, roots, plumbing):
    """greatest set of local names, containing the roots, each of whose bindings is built only from members of the set
    with text-preserving operations; returns (set, {name: reason it was dropped})"""
    binds = {}
    for n in iter_own_nodes(f.node):
        if isinstance(n, ast.Assign):
            for t in n.targets:
                if isinstance(t, ast.Name):
                    binds.setdefault(t.id, []).append(n.value)
                elif isinstance(t, ast.Subscript) and isinstance(t.value, ast.Name):
                    binds.setdefault(t.value.id, []).append(n.value)
        elif isinstance(n, ast.AugAssign) and isinstance(n.target, ast.Name):
            binds.setdefault(n.target.id, []).append(n.value)
        elif isinstance(n, ast.Call) and isinstance(n.func, ast.Attribute) and isinstance(n.func.value, ast.Name) \
                and n.func.attr in ("append", "insert", "extend") and n.args:
            binds.setdefault(n.func.value.id, []).append(n.args[-1])
        elif isinstance(n, ast.For) and isinstance(n.target, ast.Name):
            binds.setdefault(n.target.id, []).append(n.iter)
    cand = set(binds) | set(roots)
    why = {}
    changed = True
    while changed:
        changed = False
        for name in sorted(cand - set(roots)):
            for e in binds.get(name, []):
                foreign = _value_names(e) - cand - plumbing
                ops = _bad_ops(e)
                if foreign or ops:
                    why[name] = "`%s` uses %s" % (" ".join(ast.unparse(e).split())[:70], ", ".join(sorted(foreign) + ops))
                    cand.discard(name)
                    changed = True
                    break
    return cand, why


def r5(ctx, chk):
    rule = "C17.R5"
    ix = ctx.ix
    # translate_search: the second returned list (original side) is built from the tokens of the original sentence only
    ts = ix.func("dateparser.languages.locale:Locale.translate_search")
    rets = [s_ for s_ in iter_own_stmts(ts.node.body) if isinstance(s_, ast.Return) and isinstance(s_.value, ast.Tuple) and len(s_.value.elts) == 2]
    if len(rets) != 1 or not isinstance(rets[0].value.elts[1], ast.Name):
        raise AnalysisError(rule, "translate_search does not return a pair of names")
    orig_list = rets[0].value.elts[1].id
    roots = set()
    for n in iter_own_nodes(ts.node):
        if isinstance(n, ast.Assign) and isinstance(n.targets[0], ast.Tuple) and isinstance(n.value, ast.Call) \
                and ast.unparse(n.value.func).endswith("_simplify_split_align") and isinstance(n.targets[0].elts[0], ast.Name):
            roots.add(n.targets[0].elts[0].id)
            sent = n.value.args[0] if n.value.args else None
    if not roots:
        raise AnalysisError(rule, "translate_search: the aligned original tokens are not found")
    ok_set, why = _orig_closure(ts, roots, {"self", "settings"})
    chk.ob(rule, "translate_search: the original-side list `%s` is built only from the original sentence's tokens" % orig_list, orig_list in ok_set,
           why.get(orig_list, "") or "; ".join("%s: %s" % kv for kv in sorted(why.items()))[:300],
           key={"function": ts.key, "construct": "original side provenance"}, file=ts.file, function=ts.qual, line=ts.node.lineno)
    # the aligned tokens themselves: first result of _simplify_split_align comes from _word_split(<its text argument>)
    al = ix.func("dateparser.languages.locale:Locale._simplify_split_align")
    p_text = al.params()[1]
    arets = [s_ for s_ in iter_own_stmts(al.node.body) if isinstance(s_, ast.Return) and isinstance(s_.value, ast.Tuple)]
    firsts = {ast.unparse(r_.value.elts[0]) for r_ in arets}
    ok = len(firsts) == 1
    if ok:
        nm = firsts.pop()
        aset, awhy = _orig_closure(al, {p_text}, {"self", "settings"})
        ok = nm in aset
    chk.ob(rule, "_simplify_split_align: the first returned list is the word split of the untouched text (padding with '' only)", ok,
           "", key={"function": al.key, "construct": "aligned originals provenance"}, file=al.file, function=al.qual, line=al.node.lineno)
    # _word_split (what the alignment starts from) keeps every character of the text: str.split() for spaced languages,
    # the dictionary splitter WITH formatting for the languages written without spaces (without it, punctuation tokens are dropped
    # and the re-joined substring is no longer a piece of the text)
    ws = ix.func("dateparser.languages.locale:Locale._word_split")
    wp = ws.params()[1]
    wrets = [r_ for r_ in iter_own_nodes(ws.node) if isinstance(r_, ast.Return) and r_.value is not None]
    for r_ in wrets:
        v = r_.value
        ok = False
        if isinstance(v, ast.Call) and isinstance(v.func, ast.Attribute):
            if v.func.attr == "split" and ast.unparse(v.func.value) == wp and not v.args:
                ok = True
            elif ast.unparse(v.func) == "self._split" and v.args and ast.unparse(v.args[0]) == wp:
                kf = {k.arg: k.value for k in v.keywords}.get("keep_formatting", v.args[1] if len(v.args) > 1 else None)
                ok = isinstance(kf, ast.Constant) and kf.value is True
        chk.ob(rule, "_word_split returns a splitting of the text that keeps every token (`%s`)" % " ".join(ast.unparse(v).split())[:60], ok,
               "tokens without letters or digits are dropped by the splitter: the substring re-joined from the original tokens skips "
               "characters of the text ('2019年3月12日(星期二)' -> '2019年3月12日星期二')",
               key={"function": ws.key, "construct": "word split keeps formatting"}, file=ws.file, function=ws.qual, line=r_.lineno)
    chk.floor(rule + ".wordsplit", len(wrets), 2, "return statements of _word_split")
    # search.py: substrings come from the original-side argument only
    pf = ix.func("dateparser.search.search:_ExactLanguageSearch.parse_found_objects")
    sp = ix.func("dateparser.search.search:_ExactLanguageSearch.search_parse")
    # which parameter receives the original side
    orig_param = None
    for n in iter_own_nodes(sp.node):
        if isinstance(n, ast.Assign) and isinstance(n.targets[0], ast.Tuple) and isinstance(n.value, ast.Call) and ast.unparse(n.value.func) == "self.search":
            sec = ast.unparse(n.targets[0].elts[1])
            for c in iter_own_nodes(sp.node):
                if isinstance(c, ast.Call) and ast.unparse(c.func).endswith("parse_found_objects"):
                    for kw in c.keywords:
                        if ast.unparse(kw.value) == sec and kw.arg != "to_parse" and orig_param is None:
                            orig_param = kw.arg
                    ps = pf.params()
                    for i_, a in enumerate(c.args):
                        if ast.unparse(a) == sec and orig_param is None and i_ + 1 < len(ps):
                            orig_param = ps[i_ + 1]
    if orig_param is None:
        raise AnalysisError(rule, "search_parse: cannot see which argument of parse_found_objects receives the original side")
    sb = ix.func("dateparser.search.search:_ExactLanguageSearch.split_by")
    sbp = sb.params()
    # split_by(item, original, splitter): second member of every returned pair is made of params[2] (+ the splitter)
    b_ok, bwhy = _orig_closure(sb, {sbp[2], sbp[3]}, {"self"})
    pair_seconds = []
    for n in iter_own_nodes(sb.node):
        if isinstance(n, ast.List) and len(n.elts) == 2 and not isinstance(n.elts[0], ast.List):
            pair_seconds.append(n.elts[1])
    ok = bool(pair_seconds) and all(not (_value_names(e) - b_ok) and not _bad_ops(e) for e in pair_seconds)
    chk.ob(rule, "split_by: the original-side member of every candidate pair is cut out of the original chunk", ok,
           "; ".join("%s: %s" % kv for kv in sorted(bwhy.items()))[:200],
           key={"function": sb.key, "construct": "split pieces provenance"}, file=sb.file, function=sb.qual, line=sb.node.lineno)
    # parse_found_objects: roots = the original parameter and the second member of the split pairs
    roots = {orig_param}
    for n in iter_own_nodes(pf.node):
        if isinstance(n, ast.For) and isinstance(n.target, ast.Tuple) and len(n.target.elts) == 2 and isinstance(n.target.elts[1], ast.Name):
            it = n.iter
            if isinstance(it, ast.Name):
                for m in iter_own_nodes(pf.node):
                    if isinstance(m, ast.Assign) and ast.unparse(m.targets[0]) == it.id and isinstance(m.value, ast.Call) \
                            and ast.unparse(m.value.func).endswith("split_if_not_parsed") and len(m.value.args) == 2 \
                            and not (_value_names(m.value.args[1]) - {orig_param}):
                        roots.add(n.target.elts[1].id)
    out_pos = None
    prets = [s_ for s_ in iter_own_stmts(pf.node.body) if isinstance(s_, ast.Return) and isinstance(s_.value, ast.Tuple)]
    sub_name = _substrings_name(ix)
    # choose_best_split returns elements of its arguments: its second result carries the provenance of its second argument
    for n in iter_own_nodes(pf.node):
        if isinstance(n, ast.Assign) and isinstance(n.targets[0], ast.Tuple) and isinstance(n.value, ast.Call) \
                and ast.unparse(n.value.func).endswith("choose_best_split") and len(n.value.args) == 2 and len(n.targets[0].elts) == 2:
            cb = ix.func("dateparser.search.search:_ExactLanguageSearch.choose_best_split")
            cps = cb.params()
            crets = [s_ for s_ in iter_own_stmts(cb.node.body) if isinstance(s_, ast.Return) and isinstance(s_.value, ast.Tuple) and len(s_.value.elts) == 2]
            if crets and all(_value_names(r_.value.elts[1]) <= {cps[2]} for r_ in crets) and isinstance(n.value.args[1], ast.Name):
                # treat `second result` as an alias of the second argument
                pf_alias = (ast.unparse(n.targets[0].elts[1]), n.value.args[1].id)
                roots_alias = pf_alias
            else:
                roots_alias = None
    ok_set, why = _orig_closure(pf, roots, {"self", "settings"})
    if 'roots_alias' in dir() and roots_alias and roots_alias[1] in ok_set:
        ok_set2, why2 = _orig_closure(pf, roots | {roots_alias[0]}, {"self", "settings"})
        ok_set, why = ok_set2, why2
    chk.ob(rule, "parse_found_objects: every reported substring is cut out of the original-side text", sub_name in ok_set,
           why.get(sub_name, "") or "; ".join("%s: %s" % kv for kv in sorted(why.items()))[:300],
           key={"function": pf.key, "construct": "substring provenance"}, file=pf.file, function=pf.qual, line=pf.node.lineno)


def _substrings_name(ix):
    pf = ix.func("dateparser.search.search:_ExactLanguageSearch.parse_found_objects")
    sp = ix.func("dateparser.search.search:_ExactLanguageSearch.search_parse")
    rets = [s for s in iter_own_stmts(pf.node.body) if isinstance(s, ast.Return) and isinstance(s.value, ast.Tuple)]
    out_all = [e.id if isinstance(e, ast.Name) else None for e in rets[0].value.elts]
    for n in iter_own_nodes(sp.node):
        if isinstance(n, ast.Assign) and isinstance(n.targets[0], ast.Tuple) and isinstance(n.value, ast.Call) \
                and ast.unparse(n.value.func).endswith("parse_found_objects"):
            unpack = [ast.unparse(e) for e in n.targets[0].elts]
            for z in iter_own_nodes(sp.node):
                if isinstance(z, ast.Call) and isinstance(z.func, ast.Name) and z.func.id == "zip" and z.args and ast.unparse(z.args[0]) in unpack:
                    return out_all[unpack.index(ast.unparse(z.args[0]))]
    raise AnalysisError("C17.R5", "cannot tell which list returned by parse_found_objects holds the substrings")


def _appends(stmts, names):
    """{name: count} of `<name>.append(..)` expression statements directly in this block"""
    out = {}
    for s in stmts:
        if isinstance(s, ast.Expr) and isinstance(s.value, ast.Call) and isinstance(s.value.func, ast.Attribute) \
                and s.value.func.attr == "append" and isinstance(s.value.func.value, ast.Name) \
                and s.value.func.value.id in names:
            out[s.value.func.value.id] = out.get(s.value.func.value.id, 0) + 1
    return out


def _blocks(fn):
    yield fn.node.body
    for s in iter_own_stmts(fn.node.body):
        for fld in ("body", "orelse", "finalbody"):
            b = getattr(s, fld, None)
            if isinstance(b, list) and b and not isinstance(s, (ast.FunctionDef, ast.ClassDef)):
                yield b
        for h in getattr(s, "handlers", []) or []:
            yield h.body


def r3(ctx, chk):
    rule = "C17.R3"
    ix = ctx.ix
    pf = ix.func("dateparser.search.search:_ExactLanguageSearch.parse_found_objects")
    # the returned pair
    rets = [s for s in iter_own_stmts(pf.node.body) if isinstance(s, ast.Return)]
    if len(rets) != 1 or not isinstance(rets[0].value, ast.Tuple) or len(rets[0].value.elts) != 2 \
            or not all(isinstance(e, ast.Name) for e in rets[0].value.elts):
        raise AnalysisError(rule, "parse_found_objects does not return a pair of names")
    pair = [e.id for e in rets[0].value.elts]
    pairs = [tuple(pair)]
    # inner per-split lists appended pairwise as well
    # lists handed together to choose_best_split, and the inner lists appended into them
    for c in iter_own_nodes(pf.node):
        if isinstance(c, ast.Call) and ast.unparse(c.func).endswith("choose_best_split") and len(c.args) == 2 \
                and all(isinstance(a, ast.Name) for a in c.args):
            outer = (c.args[0].id, c.args[1].id)
            # the lists may be filled under another name and copied over (`possible_parsed = filled` after a written-out helper)
            src = {}
            for d in iter_own_nodes(pf.node):
                if isinstance(d, ast.Assign) and len(d.targets) == 1 and isinstance(d.targets[0], ast.Name) and d.targets[0].id in outer \
                        and isinstance(d.value, ast.Name):
                    src.setdefault(d.targets[0].id, []).append(d.value.id)
            if set(src) == set(outer) and all(len(v) == 1 for v in src.values()):
                outer = (src[outer[0]][0], src[outer[1]][0])
            pairs.append(outer)
            inner = {}
            for d in iter_own_nodes(pf.node):
                if isinstance(d, ast.Call) and isinstance(d.func, ast.Attribute) and d.func.attr == "append" \
                        and isinstance(d.func.value, ast.Name) and d.func.value.id in outer and d.args and isinstance(d.args[0], ast.Name):
                    inner[d.func.value.id] = d.args[0].id
            if set(inner) == set(outer):
                pairs.append((inner[outer[0]], inner[outer[1]]))
    n = 0
    for a, b in pairs:
        for block in _blocks(pf):
            c = _appends(block, {a, b})
            if c:
                n += 1
                ok = c.get(a, 0) == c.get(b, 0)
                line = block[0].lineno
                chk.ob(rule, "parse_found_objects: %s/%s appended pairwise in the block at line %d" % (a, b, line), ok,
                       "a hit is appended without its substring (or vice versa): zip() then mis-pairs or drops hits",
                       key={"function": pf.key, "construct": "pairwise append %s/%s" % (a, b)},
                       file=pf.file, function=pf.qual, line=line)
    chk.floor(rule + ".pairs", n, 3, "blocks appending to hit/substring lists")
    # no reordering on the flow translate_search -> result
    flow = ["dateparser.search.search:_ExactLanguageSearch.parse_found_objects",
            "dateparser.search.search:_ExactLanguageSearch.search_parse",
            "dateparser.search.search:_ExactLanguageSearch.search",
            "dateparser.languages.locale:Locale.translate_search",
            "dateparser.search:search_dates",
            "dateparser.search.search:DateSearchWithDetection.search_dates"]
    for fk in flow:
        f = ix.func(fk)
        bad = []
        for nn in iter_own_nodes(f.node):
            if isinstance(nn, ast.Call):
                nm = ast.unparse(nn.func).split(".")[-1]
                if nm in ("sorted", "reversed", "sort", "reverse", "shuffle") or (
                        nm in ("set", "frozenset") and isinstance(nn.func, ast.Name)):
                    bad.append("%s at line %d" % (ast.unparse(nn)[:50], nn.lineno))
        chk.ob(rule, "%s: no sort/reverse/set on the hit flow" % f.qual, not bad,
               "hits may leave text order: " + "; ".join(bad),
               key={"function": fk, "construct": "no reordering"}, file=f.file, function=f.qual, line=f.node.lineno)
    # search_parse zips substrings with dates of the same parsed list
    sp = ix.func("dateparser.search.search:_ExactLanguageSearch.search_parse")
    pair_names = None
    for nn in iter_own_nodes(sp.node):
        if isinstance(nn, ast.Assign) and isinstance(nn.value, ast.Call) and \
                ast.unparse(nn.value.func).endswith("parse_found_objects") and isinstance(nn.targets[0], ast.Tuple):
            pair_names = [e.id for e in nn.targets[0].elts if isinstance(e, ast.Name)]
    if not pair_names or len(pair_names) != 2:
        raise AnalysisError(rule, "search_parse: `parsed, substrings = self.parse_found_objects(...)` not found")
    ok = False
    for r in [x for x in iter_own_stmts(sp.node.body) if isinstance(x, ast.Return) and x.value is not None]:
        for z in ast.walk(r.value):
            if isinstance(z, ast.Call) and isinstance(z.func, ast.Name) and z.func.id == "zip" and len(z.args) == 2:
                a0, a1 = z.args
                if isinstance(a0, ast.Name) and a0.id == pair_names[1] and isinstance(a1, (ast.ListComp, ast.GeneratorExp)) \
                        and isinstance(a1.generators[0].iter, ast.Name) and a1.generators[0].iter.id == pair_names[0] \
                        and not a1.generators[0].ifs and len(a1.generators) == 1:
                    ok = True
    chk.ob(rule, "search_parse returns zip(substrings, <date of each parsed item>) without filtering", ok,
           "the result no longer pairs each substring with its own parsed date",
           key={"function": sp.key, "construct": "zip(substrings, parsed dates)"}, file=sp.file, function=sp.qual,
           line=sp.node.lineno)
    # search_dates: list only when truthy
    from ..core.ctx import conjuncts, enclosing_tests

    sd = ix.func("dateparser.search:search_dates")
    rets = [x for x in iter_own_stmts(sd.node.body) if isinstance(x, ast.Return)]
    ok = bool(rets)
    for r in rets:
        v = r.value
        if v is None or (isinstance(v, ast.Constant) and v.value is None):
            continue
        # the list handed back: a local, or one new element per element of a local (as long as the local, so empty only if it is)
        if isinstance(v, ast.ListComp) and len(v.generators) == 1 and not v.generators[0].ifs and isinstance(v.generators[0].iter, ast.Name):
            name = v.generators[0].iter.id
        elif isinstance(v, ast.Name):
            name = v.id
        else:
            chk.error(rule, "search_dates line %d returns `%s`: not a form this rule can follow" % (r.lineno, " ".join(ast.unparse(v).split())[:60]))
            continue
        guarded = False
        for test, pol in enclosing_tests(sd.node, r):
            for atom, p in conjuncts(test, pol):
                if p and ast.unparse(atom) == name:
                    guarded = True
        ok = ok and guarded
    chk.ob(rule, "search_dates returns its list only under a truthiness test (None instead of [])", ok,
           "an empty list can be returned",
           key={"function": sd.key, "construct": "return dates only if dates"}, file=sd.file, function=sd.qual,
           line=sd.node.lineno)
    # add_detected_language: each tuple is extended by the single result language
    langvars = set()
    for nn in iter_own_nodes(sd.node):
        if isinstance(nn, ast.Assign) and len(nn.targets) == 1 and isinstance(nn.targets[0], ast.Name):
            if any(isinstance(c, ast.Constant) and c.value == "Language" for c in ast.walk(nn.value)):
                langvars.add(nn.targets[0].id)
    ok = False
    for nn in iter_own_nodes(sd.node):
        if isinstance(nn, (ast.ListComp, ast.GeneratorExp)) and len(nn.generators) == 1 and not nn.generators[0].ifs:
            loopvars = {x.id for x in ast.walk(nn.generators[0].target) if isinstance(x, ast.Name)}
            free = {x.id for x in ast.walk(nn.elt) if isinstance(x, ast.Name)} - loopvars - {"tuple", "list"}
            if free and free <= langvars and loopvars & {x.id for x in ast.walk(nn.elt) if isinstance(x, ast.Name)}:
                ok = True
    chk.ob(rule, "add_detected_language extends every hit by the one detected language", ok,
           "the language attached to hits is not the single `Language` of the search result",
           key={"function": sd.key, "construct": "hit + (language,)"}, file=sd.file, function=sd.qual,
           line=sd.node.lineno)
    # the reported language is the one used for the search
    ds = ix.func("dateparser.search.search:DateSearchWithDetection.search_dates")
    ret = [x for x in iter_own_stmts(ds.node.body) if isinstance(x, ast.Return) and isinstance(x.value, ast.Dict)]
    ok = False
    for r in ret:
        d = {k.value: v for k, v in zip(r.value.keys, r.value.values) if isinstance(k, ast.Constant)}
        if "Language" in d and "Dates" in d and isinstance(d["Dates"], ast.Call):
            lang = ast.unparse(d["Language"])
            if d["Dates"].args and ast.unparse(d["Dates"].args[0]) == lang and lang != "None":
                ok = True
    chk.ob(rule, "the reported Language is the shortname handed to search_parse", ok,
           "language reported differs from the language used",
           key={"function": ds.key, "construct": "Language == search_parse arg"}, file=ds.file, function=ds.qual,
           line=ds.node.lineno)
    # requested languages restrict detection: the detector is built from the requested languages
    dl = ix.func("dateparser.search.search:DateSearchWithDetection.detect_language")
    ok = False
    for nn in iter_own_nodes(dl.node):
        if isinstance(nn, ast.Call) and ast.unparse(nn.func).endswith("FullTextLanguageDetector"):
            args = [ast.unparse(a) for a in nn.args] + [ast.unparse(k.value) for k in nn.keywords]
            if args == ["languages"]:
                for test, pol in enclosing_tests(dl.node, nn):
                    for atom, p in conjuncts(test, pol):
                        if p and ast.unparse(atom) == "languages":
                            ok = True
    chk.ob(rule, "given languages restrict the detector to exactly those locales", ok,
           "the detector is not built from the requested languages when they are given",
           key={"function": dl.key, "construct": "detector from requested languages"}, file=dl.file,
           function=dl.qual, line=dl.node.lineno)

"""Exception-escape policy shared by C02 / C04 / C17: exemptions with *checked*
preconditions (DESIGN §1.2) and the list of argument-validation functions."""
import ast

import regex

from ..core.ctx import conjuncts, enclosing_tests
from ..core.data import LangData
from ..core.effects import Effects
from ..core.index import iter_own_nodes
from ..core.repo import AnalysisError

# functions whose explicit `raise TypeError/ValueError/SettingValidationError` statements
# are the documented argument validation (one named symbol each, with the reason)
VALIDATION_FUNCS = {
    "dateparser.date:DateDataParser.__init__": "type checks of languages/locales/region/flags",
    "dateparser.date:DateDataParser.get_date_data": "TypeError for a non-str date_string",
    "dateparser.date:_DateLocaleParser.__init__": "TypeError for a wrongly typed date_formats",
    "dateparser.conf:apply_settings.<locals>.wrapper": "TypeError for settings that are neither dict nor Settings",
    "dateparser.conf:Settings.replace": "TypeError for a None setting value",
    "dateparser.languages.loader:LocaleDataLoader._load_data": "ValueError for unknown/conflicting languages and locales",
    "dateparser.search.search:DateSearchWithDetection.detect_language": "ValueError/TypeError for unknown languages",
}
VALIDATION_MODULE_PREFIX = ("dateparser.conf:check_settings", "dateparser.conf:_check_")
ALLOWED_BASES = ("TypeError", "ValueError")


def is_validation_origin(origin_func_key):
    return origin_func_key in VALIDATION_FUNCS or origin_func_key.startswith(VALIDATION_MODULE_PREFIX)


class Exemptions:
    """each exemption: a site predicate, the exception classes it covers, a reason and a
    precondition that is re-checked on the current tree the first time it is used"""

    def __init__(self, ctx, chk, rule):
        self.ctx = ctx
        self.chk = chk
        self.rule = rule
        self.ix = ctx.ix
        self._pre = {}
        self.used = {}

    # -- precondition helpers (memoised) --------------------------------
    def pre(self, name, fn):
        if name not in self._pre:
            try:
                self._pre[name] = fn()
            except AnalysisError:
                raise
        return self._pre[name]

    def _timestamp_regex_ok(self):
        """C01.R1's regex shape: group 1 = optional '-' + exactly 10 digits; groups 2,3 = 3 digits"""
        from ..core.rx import timestamp_shape

        ok = True
        for name in ("RE_SEARCH_TIMESTAMP", "RE_SEARCH_NEGATIVE_TIMESTAMP"):
            shape = timestamp_shape(self.ix, name)
            if shape is None or shape["g1_digits"] != 10 or shape["g2"] != 3 or shape["g3"] != 3:
                ok = False
        return ok

    def _no_word_spacing_ok(self):
        ld = self.ctx.memo("langdata", lambda: LangData(self.ctx.repo))
        for lang in ld.languages():
            li = ld.info(lang)
            vals = [li.get("no_word_spacing", "False")]
            for spec in li.get("locale_specific", {}).values():
                vals.append(spec.get("no_word_spacing", "False"))
            if any(v not in ("True", "False") for v in vals):
                return False
        return True

    def _language_modules_ok(self):
        from ..core.data import module_literal

        ld = self.ctx.memo("langdata", lambda: LangData(self.ctx.repo))
        order = module_literal(self.ctx.repo, "dateparser/data/languages_info.py", "language_order")
        return set(order) <= set(ld.languages())

    def _datedata_keys_ok(self):
        """every constant subscript on a DateData value names a field set in DateData.__init__"""
        c = self.ix.classes.get("dateparser.date:DateData")
        if c is None or "__init__" not in c.methods:
            return False
        fields = set()
        for n in ast.walk(c.methods["__init__"].node):
            if isinstance(n, ast.Attribute) and isinstance(n.ctx, ast.Store) and isinstance(n.value, ast.Name) and n.value.id == "self":
                fields.add(n.attr)
        ti = self.ctx.ti
        for f in self.ix.funcs.values():
            for n in iter_own_nodes(f.node):
                if isinstance(n, ast.Subscript):
                    if "C:dateparser.date:DateData" in ti.type_of(n.value, f):
                        k = n.slice
                        if not (isinstance(k, ast.Constant) and k.value in fields):
                            # non-constant key is fine only inside DateData itself
                            if f.cls is not c:
                                return False
        return True

    def _python_requires_min(self):
        try:
            txt = self.ctx.repo.text("setup.py")
        except AnalysisError:
            return None
        m = regex.search(r"python_requires\s*=\s*[\"']>=\s*3\.(\d+)", txt)
        return int(m.group(1)) if m else None

    def _params_naive(self):
        """datetime(**params) in the absolute parser is built from a mapping without a tzinfo entry: every way the function spells the keys
        (dict literal, dict(k=..), dict(base, k=..), name[k] = .., name.update(k=..)) is collected; a key that is not a constant, or no
        recognisable mapping at all, is 'cannot decide' (AnalysisError), not 'aware'"""
        from ..core.repo import AnalysisError as _AE
        ok = True
        for key in ("dateparser.parser:_parser._get_datetime_obj_params",
                    "dateparser.calendars:non_gregorian_parser._get_datetime_obj_params"):
            f = self.ix.funcs.get(key)
            if f is None:
                raise _AE("exemption", "%s not found" % key)
            keys, found = set(), 0
            for n in ast.walk(f.node):
                if isinstance(n, ast.Dict):
                    found += 1
                    for k in n.keys:
                        if k is None:
                            continue            # {**base, ...}: base's keys are collected where base is built
                        if not isinstance(k, ast.Constant):
                            raise _AE("exemption", "%s: a key of the datetime parameters is computed (%s)" % (f.qual, ast.unparse(k)[:40]))
                        keys.add(k.value)
                elif isinstance(n, ast.Call) and (ast.unparse(n.func) == "dict" or (isinstance(n.func, ast.Attribute) and n.func.attr == "update")):
                    found += 1
                    for k in n.keywords:
                        if k.arg is not None:
                            keys.add(k.arg)
                elif isinstance(n, ast.Assign) and isinstance(n.targets[0], ast.Subscript) and isinstance(n.targets[0].slice, ast.Constant):
                    keys.add(n.targets[0].slice.value)
            if not found:
                raise _AE("exemption", "%s: cannot see how the datetime parameters are built" % f.qual)
            if "tzinfo" in keys:
                ok = False
        return ok

    def _tz_arg_from_settings(self, site):
        """the zone name reaching pytz.timezone(name) comes only from settings.TIMEZONE / TO_TIMEZONE"""
        cg = self.ctx.cg
        seen = set()

        def ok_expr(e, f, depth):
            if depth > 6:
                return False
            if isinstance(e, ast.Attribute) and e.attr in ("TIMEZONE", "TO_TIMEZONE"):
                return True
            if isinstance(e, ast.Constant) and e.value is None:
                # `None if settings is None else settings.TIMEZONE`: whether the None can reach pytz depends on a guard this exemption
                # does not follow - undecided, not "a foreign zone name"
                raise AnalysisError("exemption", "%s: the zone name handed to pytz may be None on some path; this exemption does not follow the guard" % f.qual)
            if isinstance(e, ast.BoolOp):
                return all(ok_expr(v, f, depth + 1) for v in e.values)
            if isinstance(e, ast.IfExp):
                return ok_expr(e.body, f, depth + 1) and ok_expr(e.orelse, f, depth + 1)
            if isinstance(e, ast.Name):
                if e.id in f.params():
                    return ok_param(f, e.id, depth + 1)
                # local alias
                vals = [n.value for n in iter_own_nodes(f.node) if isinstance(n, ast.Assign)
                        and any(isinstance(t, ast.Name) and t.id == e.id for t in n.targets)]
                return bool(vals) and all(ok_expr(v, f, depth + 1) for v in vals)
            return False

        def ok_param(f, p, depth):
            if (f.key, p) in seen:
                return True
            seen.add((f.key, p))
            params = f.params()
            idx = params.index(p)
            found = False
            for ck in cg.callers.get(f.key, ()):
                for s in cg.sites[ck]:
                    if f in s.callees and isinstance(s.node, ast.Call):
                        found = True
                        arg = None
                        off = 1 if (f.is_method() and f.kind() != "static") else 0
                        if idx - off < len(s.node.args) and idx - off >= 0:
                            arg = s.node.args[idx - off]
                        for kw in s.node.keywords:
                            if kw.arg == p:
                                arg = kw.value
                        if arg is None or not ok_expr(arg, s.fn, depth + 1):
                            return False
            return found

        call = site.node
        if not (isinstance(call, ast.Call) and call.args):
            return False
        return ok_expr(call.args[0], site.fn, 0)

    def _guarded_by(self, site, pred):
        for test, pol in enclosing_tests(site.fn.node, site.node):
            for atom, p in conjuncts(test, pol):
                if pred(atom, p):
                    return True
        return False

    def _clear_future_callers_guarded(self):
        cg = self.ctx.cg
        f = self.ix.funcs.get("dateparser.languages.locale:Locale._clear_future_words")
        if f is None:
            return False
        n = 0
        for ck in cg.callers.get(f.key, ()):
            for s in cg.sites[ck]:
                if f in s.callees and isinstance(s.node, ast.Call) and s.node.args:
                    n += 1
                    arg = ast.unparse(s.node.args[0])

                    def pred(atom, p):
                        return (p and isinstance(atom, ast.Compare) and len(atom.ops) == 1
                                and isinstance(atom.ops[0], ast.In)
                                and isinstance(atom.left, ast.Constant) and atom.left.value == "in"
                                and ast.unparse(atom.comparators[0]) == arg)
                    ok = False
                    for test, pol in enclosing_tests(s.fn.node, s.node):
                        for atom, p in conjuncts(test, pol):
                            if pred(atom, p):
                                ok = True
                    if not ok:
                        return False
        return n > 0

    def _f_formats_dotted(self):
        """every literal format containing %f has it as '.%f' (so a successful strptime
        implies MS_SEARCHER finds '.<digits>')"""
        for rel in ("dateparser/parser.py", "dateparser/calendars/__init__.py",
                    "dateparser/calendars/jalali_parser.py", "dateparser/calendars/hijri_parser.py"):
            if not self.ctx.repo.exists(rel):
                continue
            for n in ast.walk(self.ctx.repo.ast(rel)):
                if isinstance(n, ast.Constant) and isinstance(n.value, str) and "%f" in n.value:
                    if n.value.count("%f") != n.value.count(".%f"):
                        return False
        return True

    def _set_correct_fallback_ok(self, site):
        """fallback `replace(day|month=options["last"])` where options["last"] is the last
        valid value for the same object"""
        f = site.fn
        call = site.node
        if not (isinstance(call, ast.Call) and len(call.keywords) == 1 and not call.args):
            return False
        kw = call.keywords[0]
        v = kw.value

        def once(name):
            """the value of a local bound exactly once (and not a parameter), else None"""
            ds = [n.value for n in iter_own_nodes(f.node) if isinstance(n, ast.Assign) and len(n.targets) == 1
                  and isinstance(n.targets[0], ast.Name) and n.targets[0].id == name]
            st = sum(1 for n in iter_own_nodes(f.node) if isinstance(n, ast.Name) and n.id == name and isinstance(n.ctx, ast.Store))
            return ds[0] if len(ds) == 1 and st == 1 and name not in f.params() else None
        last = None
        if isinstance(v, ast.Subscript) and isinstance(v.slice, ast.Constant) and v.slice.value == "last" and isinstance(v.value, ast.Name):
            lit = once(v.value.id)
            if not isinstance(lit, ast.Dict):
                return False
            for k, val in zip(lit.keys, lit.values):
                if isinstance(k, ast.Constant) and k.value == "last":
                    last = val
        elif isinstance(v, ast.Name):
            last = v                # the last valid value kept in a local of its own
        if last is None:
            return False
        if isinstance(last, ast.Name):
            last = once(last.id)
            if last is None:
                return False
        recv = ast.unparse(call.func.value) if isinstance(call.func, ast.Attribute) else None
        if kw.arg == "month":
            return isinstance(last, ast.Constant) and last.value == 12
        if kw.arg == "day":
            return (isinstance(last, ast.Call) and ast.unparse(last.func).endswith("get_last_day_of_month")
                    and [ast.unparse(a) for a in last.args] == [recv + ".year", recv + ".month"])
        return False

    # -- the table ------------------------------------------------------
    def suppress(self, site, exc, origin=None):
        r = self._suppress(site, exc)
        if not r and origin is not None and site.kind == "call":
            r = self._suppress_call(site, exc, origin)
        if r:
            self.used.setdefault(r, set()).add(site.ident())
        return r

    def _suppress(self, site, exc):
        fk = site.fn.key
        txt = site.text
        n = site.node
        # dead code for every supported interpreter
        def dead(atom, p):
            if p and isinstance(atom, ast.Compare) and len(atom.ops) == 1 and isinstance(atom.ops[0], ast.Lt) \
                    and ast.unparse(atom.left) == "sys.version_info" and isinstance(atom.comparators[0], ast.Tuple):
                try:
                    bound = ast.literal_eval(atom.comparators[0])
                except Exception:
                    return False
                mn = self.pre("python_requires", self._python_requires_min)
                return mn is not None and bound <= (3, mn)
            return False
        if self._guarded_by(site, dead):
            return "dead code: guarded by sys.version_info < a version below python_requires"

        if fk == "dateparser.date:get_date_from_timestamp":
            if exc in ("OverflowError", "OSError", "ValueError") and self.pre("ts", self._timestamp_regex_ok):
                if site.kind == "call" and exc == "OverflowError":
                    return ("timestamp regex fixes group 1 to 10 digits: the instant lies in 1653..2286, more "
                            "than a day inside the datetime range, so the zone conversions after it cannot overflow")
                if site.kind == "prim" and ("fromtimestamp" in txt or txt.startswith("int(") or "microsecond=" in txt):
                    return ("timestamp regex fixes group 1 to 10 digits (|t| < 10^10 s: years 1653..2286) and "
                            "groups 2,3 to 3 digits (microsecond < 10^6); int() of \\d groups cannot fail")
        if exc == "OverflowError" and site.kind == "prim":
            # conversions downstream of the timestamp parser stay > 1 day inside the range
            pass
        if exc == "Exception" and "eval(" in txt and fk in (
                "dateparser.languages.dictionary:Dictionary.__init__",
                "dateparser.languages.locale:Locale._get_simplifications"):
            if self.pre("nws", self._no_word_spacing_ok):
                return "eval argument is the data value no_word_spacing, 'True'/'False' in all language modules"
        if exc == "ImportError" and "import_module" in txt and fk == "dateparser.languages.loader:LocaleDataLoader._load_data":
            if self.pre("langmods", self._language_modules_ok):
                return "module name is a validated member of language_order, each of which has a data module"
        if exc == "KeyError" and fk in ("dateparser.date:DateData.__getitem__", "dateparser.date:DateData.__setitem__"):
            if self.pre("ddkeys", self._datedata_keys_ok):
                return "all subscripts on DateData values use constant keys that __init__ defines"
        if exc == "UnknownTimeZoneError" and site.kind == "prim":
            if self._tz_arg_from_settings(site):
                return "zone name flows only from settings.TIMEZONE/TO_TIMEZONE (the property quantifies over resolvable names)"
        if exc == "ValueError" and fk == "dateparser.languages.locale:Locale._clear_future_words" and ".remove(" in txt:
            if self.pre("cfw", self._clear_future_callers_guarded):
                return "every call is guarded by `'in' in <the same list>`"
        if exc == "ValueError" and fk == "dateparser.languages.locale:Locale._simplify_split_align" and ".remove('')" in txt:
            return ("alignment invariant: the longer list is the one that received the inserted '' placeholders "
                    "(assumed; not checked structurally)")
        if exc == "ValueError" and txt.startswith("int(") and isinstance(n, ast.Call) and n.args:
            arg = ast.unparse(n.args[0])

            def isdec(atom, p):
                return p and isinstance(atom, ast.Call) and ast.unparse(atom) == arg + ".isdecimal()"
            if self._guarded_by(site, isdec):
                return "int() argument is guarded by str.isdecimal()"
        if exc == "ValueError" and fk == "dateparser.timezone_parser:StaticTzInfo.localize" and site.kind == "raise":
            if self.pre("naive", self._params_naive):
                return ("localize() is applied to values that are naive: guarded by a tzinfo test or built by "
                        "datetime(**params) from a params literal without tzinfo")
        if exc == "AssertionError" and fk == "dateparser.parser:_parser._correct_for_time_frame":
            if self.pre("naive", self._params_naive):
                return "dateobj is built by datetime(**params) without tzinfo, so the asserted condition holds"
        if exc == "AttributeError" and fk == "dateparser.utils.strptime:strptime" and self._from_ms_searcher(site):
            if self.pre("dotf", self._f_formats_dotted):
                return "every literal %f format spells '.%f', so a successful strptime implies '.<digits>' is present"
        if exc == "ValueError" and fk in ("dateparser.utils:set_correct_day_from_settings",
                                          "dateparser.utils:set_correct_month_from_settings"):
            if self._set_correct_fallback_ok(site):
                return "fallback sets the last valid day/month computed for the same object"
        if exc == "ValueError" and fk == "dateparser.date:parse_with_formats" and "replace(year=" in txt:
            facts = set()
            for test, pol in enclosing_tests(site.fn.node, site.node):
                for atom, p in conjuncts(test, pol):
                    if not p and isinstance(atom, ast.Compare) and isinstance(atom.ops[0], ast.In) \
                            and isinstance(atom.left, ast.Constant):
                        facts.add(atom.left.value)
            pos = set()
            for test, pol in enclosing_tests(site.fn.node, site.node):
                for atom, p in conjuncts(test, pol):
                    if p and isinstance(atom, ast.Compare) and isinstance(atom.ops[0], ast.In) and isinstance(atom.left, ast.Constant) \
                            and atom.left.value == "year" and isinstance(atom.comparators[0], ast.Name):
                        nm = atom.comparators[0].id
                        defs = [x.value for x in iter_own_nodes(site.fn.node) if isinstance(x, ast.Assign)
                                and any(isinstance(t, ast.Name) and t.id == nm for t in x.targets)]
                        if defs and all(isinstance(d, ast.Call) and ast.unparse(d.func).endswith("_get_missing_parts") for d in defs):
                            pos.add("missing-year")
            if "missing-year" in pos and self.pre("yeardirs", self._year_directives_listed):
                facts |= {"%y", "%Y"}
            if {"%y", "%Y"} <= facts:
                return ("only reached when the format has no year directive: strptime then used 1900 "
                        "(not a leap year), so the month/day pair is valid in every year")
        if exc == "ValueError" and ".index(" in txt and fk.startswith("dateparser.languages.loader:LocaleDataLoader._load_data"):
            if self.pre("loadorder", self._load_data_validates_first):
                return "language codes were validated against language_order before the sort"
        if exc == "regex.error" and site.kind == "prim":
            r = self._regex_from_data(site)
            if r:
                return r
            if isinstance(n, ast.Call) and n.args and self.regex_complete(n.args[0], site.fn, 0):
                return ("pattern is assembled only from constants that compile and re.escape()d text "
                        "(template compiled with placeholders)")
        return None

    # -- regex-safety of assembled patterns ----------------------------------
    def _template(self, e, f, depth):
        """pattern text with every re.escape(...) replaced by a literal placeholder, or None"""
        from ..core.effects import fold_list, fold_str

        if depth > 8:
            return None
        c = fold_str(e, f, self.ix)
        if c is not None:
            return c
        if isinstance(e, ast.Call) and ast.unparse(e.func) in ("re.escape", "regex.escape"):
            return "X"
        if isinstance(e, ast.BinOp) and isinstance(e.op, ast.Add):
            a, b = self._template(e.left, f, depth + 1), self._template(e.right, f, depth + 1)
            return a + b if a is not None and b is not None else None
        if isinstance(e, ast.BinOp) and isinstance(e.op, ast.Mod) and isinstance(e.left, ast.Constant):
            args = e.right.elts if isinstance(e.right, ast.Tuple) else [e.right]
            vals = [self._template(x, f, depth + 1) for x in args]
            if all(v is not None for v in vals):
                try:
                    return e.left.value % tuple(vals)
                except Exception:
                    return None
        if isinstance(e, ast.Name):
            # loop variable over a constant list: any element (all must give the same verdict; use each)
            for nn in iter_own_nodes(f.node):
                if isinstance(nn, (ast.For, ast.comprehension)) and isinstance(nn.target, ast.Name) and nn.target.id == e.id:
                    lst = fold_list(nn.iter, f, self.ix)
                    if lst:
                        return "(?:" + "|".join(lst) + ")" if len(lst) > 1 else lst[0]
        return None

    def _compiles(self, text):
        try:
            regex.compile(text)
            return True
        except Exception:
            return False

    def regex_complete(self, e, f, depth):
        """the expression always evaluates to a pattern that compiles"""
        if depth > 8:
            return False
        t = self._template(e, f, depth)
        if t is not None:
            return self._compiles(t)
        if isinstance(e, ast.BinOp) and isinstance(e.op, ast.Add):
            return self.regex_complete(e.left, f, depth + 1) and self.regex_complete(e.right, f, depth + 1)
        # "".join(<piece> for x in xs): zero or more complete pieces one after the other (what a `+=` loop over xs builds)
        if isinstance(e, ast.Call) and isinstance(e.func, ast.Attribute) and e.func.attr == "join" and isinstance(e.func.value, ast.Constant) \
                and e.func.value.value == "" and len(e.args) == 1 and isinstance(e.args[0], (ast.GeneratorExp, ast.ListComp)):
            return self.regex_complete(e.args[0].elt, f, depth + 1)
        if isinstance(e, ast.Subscript) and isinstance(e.value, ast.Name):
            lits = [nn.value for nn in iter_own_nodes(f.node) if isinstance(nn, ast.Assign)
                    and any(isinstance(t_, ast.Name) and t_.id == e.value.id for t_ in nn.targets)]
            if len(lits) == 1 and isinstance(lits[0], ast.Dict):
                return all(self.regex_complete(v, f, depth + 1) for v in lits[0].values)
            return False
        if isinstance(e, ast.Name):
            if e.id in f.params():
                return self._param_complete(f, e.id, depth + 1)
            defs = []
            for nn in iter_own_nodes(f.node):
                if isinstance(nn, ast.Assign) and any(isinstance(t_, ast.Name) and t_.id == e.id for t_ in nn.targets):
                    defs.append(nn.value)
                elif isinstance(nn, ast.AugAssign) and isinstance(nn.target, ast.Name) and nn.target.id == e.id:
                    if not isinstance(nn.op, ast.Add):
                        return False
                    defs.append(nn.value)
            return bool(defs) and all(self.regex_complete(d, f, depth + 1) for d in defs)
        return False

    def _param_complete(self, f, p, depth):
        cg = self.ctx.cg
        idx = f.params().index(p)
        off = 1 if (f.is_method() and f.kind() != "static") else 0
        found = False
        for ck in cg.callers.get(f.key, ()):
            for s in cg.sites[ck]:
                if f in s.callees and isinstance(s.node, ast.Call):
                    arg = None
                    if 0 <= idx - off < len(s.node.args):
                        arg = s.node.args[idx - off]
                    for kw in s.node.keywords:
                        if kw.arg == p:
                            arg = kw.value
                    if arg is None or not self.regex_complete(arg, s.fn, depth + 1):
                        return False
                    found = True
        return found

    def _suppress_call(self, site, exc, origin):
        """context-sensitive: apply_settings' TypeError cannot be raised by an internal call that passes
        a Settings instance (or no settings at all)"""
        if exc == "TypeError" and origin[0] in ("dateparser.conf:apply_settings.<locals>.wrapper",
                                                  "dateparser.conf:Settings.replace"):
            n = site.node
            if isinstance(n, ast.Call) and any(c.key == "dateparser.conf:apply_settings.<locals>.wrapper" for c in site.callees):
                kw = [k.value for k in n.keywords if k.arg == "settings"]
                if not kw:
                    if site.fn.key.startswith("dateparser.search"):
                        return None if False else "internal call without settings=: the default Settings instance is used"
                    return "internal call without settings=: the default Settings instance is used"
                ts = self.ctx.ti.type_of(kw[0], site.fn)
                if ts and all(t == "C:dateparser.conf:Settings" for t in ts):
                    return "internal call passes a Settings instance: apply_settings' type check cannot fail"
        return None

    def _from_ms_searcher(self, site):
        """the possibly-None match object comes (as the last alternative) from MS_SEARCHER.search(<the date string>)"""
        from ..core.effects import _regexes_of_match
        n = site.node
        if not (isinstance(n, ast.Call) and isinstance(n.func, ast.Attribute)):
            return False
        names = _regexes_of_match(self.ix, site.fn, n.func.value)
        return bool(names) and names[-1] == "MS_SEARCHER"

    def _year_directives_listed(self):
        """%y and %Y are listed as stating the year.  True / False when the table can be read; when it cannot (it is kept in a form no reader
        here knows) the exemption is 'cannot decide' - an AnalysisError - not 'does not hold'"""
        from ..core.repo import AnalysisError as _AE
        f = self.ix.funcs.get("dateparser.utils:_get_missing_parts")
        if f is None:
            raise _AE("exemption", "_get_missing_parts not found")
        try:
            from .c08 import format_part_table
            table, _ = format_part_table(self.ctx, "C02.R1")       # reads the table wherever the function keeps it
            return {"%y", "%Y"} <= set(table.get("year", ()))
        except _AE:
            pass
        for n in iter_own_nodes(f.node):
            if isinstance(n, ast.Dict):
                try:
                    d = ast.literal_eval(n)
                except Exception:
                    continue
                if isinstance(d.get("year"), list):
                    return {"%y", "%Y"} <= set(d["year"])
        raise _AE("exemption", "_get_missing_parts: the table of directives that state a part is kept in a form this analysis cannot read")

    def _load_data_validates_first(self):
        f = self.ix.funcs.get("dateparser.languages.loader:LocaleDataLoader._load_data")
        if f is None:
            return False
        raises = [n for n in iter_own_nodes(f.node) if isinstance(n, ast.Raise)]
        sorts = [n for n in iter_own_nodes(f.node) if isinstance(n, ast.Call) and ast.unparse(n.func) == "sorted"
                 and any(isinstance(x, ast.Lambda) and ".index(" in ast.unparse(x) for x in ast.walk(n))]
        if len(raises) < 2 or not sorts:
            return False
        return max(r.lineno for r in raises) < min(s.lineno for s in sorts)

    def _regex_from_data(self, site):
        fk = site.fn.key
        data_sites = {
            "dateparser.languages.dictionary:Dictionary._construct_split_regex": "known words are re.escape()d",
            "dateparser.languages.dictionary:Dictionary._construct_split_relative_regex": "relative patterns from the data modules",
            "dateparser.languages.dictionary:Dictionary._construct_match_relative_regex": "relative patterns from the data modules",
            "dateparser.languages.locale:Locale._generate_relative_translations": "relative patterns from the data modules",
            "dateparser.languages.locale:Locale._get_simplifications": "simplification patterns from the data modules",
        }
        if fk in data_sites:
            if self.pre("datarx", self._data_patterns_compile):
                return "pattern text comes from the data modules, all of whose patterns compile (%s)" % data_sites[fk]
        if fk == "dateparser.timezone_parser:build_tz_offsets.<locals>.get_offset" or fk == "dateparser.timezone_parser:_load_offsets" \
                or fk == "dateparser.timezone_parser:build_tz_offsets":
            if self.pre("tzrx", self._tz_patterns_compile):
                return "pattern text comes from timezones.py, all of whose patterns compile"
        return None

    def _data_patterns_compile(self):
        ld = self.ctx.memo("langdata", lambda: LangData(self.ctx.repo))
        for lang in ld.languages():
            li = ld.info(lang)
            blocks = [li] + list(li.get("locale_specific", {}).values())
            for b in blocks:
                for pats in b.get("relative-type-regex", {}).values():
                    for p in pats:
                        try:
                            regex.compile(p.replace(r"(\d+", r"(?P<n>\d+"), regex.U | regex.I)
                            regex.compile(regex.sub(r"[\(\)]", "", p), regex.U | regex.I)
                        except regex.error:
                            return False
                for simp in b.get("simplifications", []):
                    for k in simp:
                        try:
                            regex.compile(r"(?<=\A|\W|_)%s(?=\Z|\W|_)" % k, regex.U | regex.I)
                        except regex.error:
                            return False
        return True

    def _tz_patterns_compile(self):
        from ..core.data import module_literal

        tl = module_literal(self.ctx.repo, "dateparser/timezones.py", "timezone_info_list")
        for info in tl:
            for pat in info["regex_patterns"]:
                for tz in info["timezones"]:
                    try:
                        regex.compile(pat % tz[0], regex.I)
                        for a, b in info.get("replace", []):
                            regex.compile(regex.sub(a, b, pat % tz[0]), regex.I)
                    except Exception:
                        return False
        return True


def build_effects(ctx, chk, rule):
    ex = Exemptions(ctx, chk, rule)
    ef = Effects(ctx.cg, suppress=ex.suppress)
    return ef, ex


def report_escapes(ctx, chk, rule, ef, entry_keys, allowed_origin=is_validation_origin, floor=20):
    """obligation per primitive site reachable from the entries: its exception classes do
    not escape, unless they are TypeError/ValueError born in a validation function"""
    h = ef.h
    reach = ctx.cg.reachable(entry_keys)
    nsites = 0
    for fk in sorted(reach):
        for s in ef.sites.get(fk, ()):
            if s.kind in ("prim", "raise", "assert"):
                nsites += 1
    escaped = {}
    for ek in entry_keys:
        for (exc, origin), w in ef.escapes(ek).items():
            escaped.setdefault((exc, origin), (ek, w))
    # obligations: every reachable primitive site
    for fk in sorted(reach):
        for s in ef.sites.get(fk, ()):
            if s.kind not in ("prim", "raise", "assert"):
                continue
            for exc in s.excs:
                ident = s.ident()
                esc = escaped.get((exc, ident))
                allowed = any(h.issub(exc, b) for b in ALLOWED_BASES) and s.kind == "raise" and allowed_origin(fk)
                ok = esc is None or allowed
                detail = ""
                path = None
                if esc is not None and not allowed:
                    ek, w = esc
                    detail = "%s raised here escapes %s: no handler on the call chain catches it (%s)" % (
                        exc, ek.split(":")[1], s.excs[exc])
                    path = ["%s:%d" % (x[0].split(":")[1], x[1]) for x in w]
                chk.ob(rule, "%s | %s | %s" % (fk, ident[1][:120], exc), ok, detail,
                       key={"exc": exc, "function": fk, "construct": ident[1][:200]},
                       file=s.fn.file, function=s.fn.qual, line=s.line, text=s.text[:200], path=path)
    chk.floor(rule, nsites, floor, "raising sites reachable from the entry points")
    return escaped

"""C02 — parse is total; documented exceptions only.

R1 exception-escape analysis from the API entries
R2 validation precedes use (dominance)
R3 dispatch tables agree with the validated value sets
R4 input/argument type guards dominate the uses
"""
import ast

from ..core.cfg import CFG
from ..core.data import LangData, module_literal
from ..core.index import iter_own_nodes, iter_own_stmts
from ..core.repo import AnalysisError
from .escape_common import build_effects, report_escapes

LEVEL = "other"
EXPLANATION = (
    "Static exception-escape analysis (least fixpoint over the resolved call graph of a primitive "
    "may-raise table minus the enclosing handlers) from dateparser.parse / DateDataParser.__init__ / "
    "get_date_data / get_date_tuple; dominance rules on the CFG for validation-before-use and the input "
    "type guard; agreement of every dispatch dict with the value set its setting is validated against. "
    "Decides: no tracked exception class born at a modelled operation can leave the API, apart from "
    "TypeError/ValueError raised by the argument-validation functions. Does not decide: exceptions of "
    "operations outside the primitive table."
)

ENTRIES = [
    "dateparser:parse",
    "dateparser.date:DateDataParser.__init__",
    "dateparser.date:DateDataParser.get_date_data",
    "dateparser.date:DateDataParser.get_date_tuple",
]


def run(ctx, chk):
    r1(ctx, chk)
    r2(ctx, chk)
    r3(ctx, chk)
    r4(ctx, chk)
    r5(ctx, chk)
    local_spelling_rule(ctx, chk, "C02.R6")
    settings_forwarding_rule(ctx, chk, "C02.R7")
    from .c04 import unit_spelling_rule
    unit_spelling_rule(ctx, chk, "C02.R8")          # relativedelta(**{'ſeconds': 1}) is a TypeError that nothing catches


def local_spelling_rule(ctx, chk, rule):
    """TIMEZONE='local' (the default) is not a zone name: every reader tests for it BEFORE handing the string to pytz, and every reader
    spells the test case-insensitively (`'local' in TIMEZONE.lower()`).  The escape analysis excuses UnknownTimeZoneError because the
    property quantifies over resolvable zone names - which includes 'Local' / 'LOCAL' as long as all readers agree on that spelling.
    One reader that compares the raw string sends 'LOCAL' to pytz.timezone() and the exception escapes for that parser path only."""
    n = 0
    for f in list(ctx.ix.funcs.values()):
        if not f.module.rel.startswith("dateparser/") or f.module.rel.startswith("dateparser/data/"):
            continue
        g = None
        for c in iter_own_nodes(f.node):
            if not (isinstance(c, ast.Compare) and len(c.ops) == 1 and isinstance(c.ops[0], (ast.In, ast.NotIn, ast.Eq, ast.NotEq))):
                continue
            lit, e = c.left, c.comparators[0]
            if isinstance(c.ops[0], (ast.Eq, ast.NotEq)) and not isinstance(lit, ast.Constant):
                lit, e = e, lit                      # X == 'local' reads like 'local' == X
            if not (isinstance(lit, ast.Constant) and isinstance(lit.value, str) and lit.value.lower() == "local"):
                continue
            n += 1

            def lowered(x):
                return isinstance(x, ast.Call) and isinstance(x.func, ast.Attribute) and x.func.attr in ("lower", "casefold") and not x.args
            ok = lowered(e) and lit.value == "local"
            if not ok and isinstance(e, ast.Name) and lit.value == "local":
                g = g or CFG(f.node)
                at = g.node_of_expr(f.node, c)
                rd = g.reaching_defs(e.id).get(at, set())
                ok = bool(rd) and g.entry.id not in rd and all(
                    isinstance(g.nodes[d].stmt, ast.Assign) and lowered(g.nodes[d].stmt.value) for d in rd)
            chk.ob(rule, "%s line %d: the 'local' test is made on the lower-cased setting" % (f.qual, c.lineno), ok,
                   "`%s` compares the setting as written while the other readers lower-case it: TIMEZONE='LOCAL' / 'Local' is the local zone "
                   "for them and an unknown pytz zone name (UnknownTimeZoneError escapes) here" % " ".join(ast.unparse(c).split()),
                   key={"function": f.key, "construct": "local test " + " ".join(ast.unparse(c).split())[:50]},
                   file=f.file, function=f.qual, line=c.lineno, text=" ".join(ast.unparse(c).split()))
    chk.floor(rule, n, 5, "tests whether TIMEZONE means the local zone")


def settings_forwarding_rule(ctx, chk, rule):
    """Most internal functions declare `settings=None` and then read `settings.<KEY>` (directly, or in a callee they forward it to) without
    a None test; only the @apply_settings entry points replace a missing value by the defaults.  So an internal call that leaves the
    argument out (or passes None) is a latent AttributeError - and, where the read sits behind a lazily filled per-locale cache
    (`_get_splitters`, `_get_wordchars`, `_get_dictionary`), one that shows only when that call happens to be the first to touch the locale.
    Every call site of a function that may dereference its settings must hand it a settings value."""
    from ..core.ctx import conjuncts, enclosing_tests
    ix, cg = ctx.ix, ctx.cg

    def sparam(f):
        return "settings" in f.params() and not isinstance(f.node, ast.Lambda)

    def filled_by_decorator(f):
        return any(d.split(".")[-1] == "apply_settings" for d in f.decorators())

    def arg_for(call, callee):
        ps = callee.params()
        idx = ps.index("settings") - (1 if callee.is_method() and callee.kind() != "static" else 0)
        for k in call.keywords:
            if k.arg == "settings":
                return k.value
            if k.arg is None:
                return k.value            # **kwargs: supplied by the caller's mapping
        if 0 <= idx < len(call.args) and not any(isinstance(a, ast.Starred) for a in call.args[:idx + 1]):
            return call.args[idx]
        if any(isinstance(a, ast.Starred) for a in call.args):
            return call.args[0]
        return None

    def guarded(f, node):
        """is the read under a test that settings is set?"""
        for t, pol in enclosing_tests(f.node, node):
            for a, p_ in conjuncts(t, pol):
                txt = ast.unparse(a)
                if (p_ and txt in ("settings", "settings is not None")) or (not p_ and txt in ("settings is None", "not settings")):
                    return True
        return False

    funcs = [f for f in ix.funcs.values() if f.module.rel.startswith("dateparser/") and not f.module.rel.startswith("dateparser/data/") and sparam(f)]
    deref = {}
    for f in funcs:
        for n in iter_own_nodes(f.node):
            if isinstance(n, ast.Attribute) and isinstance(n.value, ast.Name) and n.value.id == "settings" and isinstance(n.ctx, ast.Load) \
                    and not guarded(f, n):
                # rebinding `settings = settings or default` before the read would make this safe; none exists, keep it simple and check
                rebound = any(isinstance(x, ast.Assign) and any(isinstance(t, ast.Name) and t.id == "settings" for t in x.targets)
                              for x in iter_own_nodes(f.node))
                if not rebound:
                    deref[f.key] = "reads settings.%s at line %d" % (n.attr, n.lineno)
                    break
    changed = True
    while changed:
        changed = False
        for f in funcs:
            if f.key in deref:
                continue
            for s_ in cg.sites.get(f.key, ()):
                if not isinstance(s_.node, ast.Call):
                    continue
                for c in s_.callees:
                    if c.key in deref and sparam(c) and not filled_by_decorator(c):
                        a = arg_for(s_.node, c)
                        if isinstance(a, ast.Name) and a.id == "settings" and not guarded(f, s_.node):
                            deref[f.key] = "forwards it to %s (line %d), which %s" % (c.qual, s_.node.lineno, deref[c.key].split(",")[0])
                            changed = True
                            break
                if f.key in deref:
                    break
    chk.floor(rule + ".readers", len(deref), 30, "functions that read their settings parameter without a None test")
    n = 0
    for fk in sorted(cg.sites):
        f = ix.funcs[fk]
        if not f.module.rel.startswith("dateparser/") or f.module.rel.startswith("dateparser/data/"):
            continue
        for s_ in cg.sites[fk]:
            if not isinstance(s_.node, ast.Call):
                continue
            for c in s_.callees:
                if c.key not in deref or filled_by_decorator(c):
                    continue
                n += 1
                a = arg_for(s_.node, c)
                ok = a is not None and not (isinstance(a, ast.Constant) and a.value is None)
                chk.ob(rule, "%s line %d: %s receives a settings value" % (f.qual, s_.node.lineno, c.qual), ok,
                       "`%s` leaves settings %s, but %s %s: AttributeError on None%s" % (
                           " ".join(ast.unparse(s_.node).split())[:70], "out" if a is None else "None", c.qual, deref[c.key],
                           " - only on the call that first fills the per-locale cache, i.e. depending on what was parsed before" if "_get_" in deref[c.key] or "_set_" in deref[c.key] or "_get_" in c.qual else ""),
                       key={"function": f.key, "construct": "call %s without settings" % c.qual}, file=f.file, function=f.qual, line=s_.node.lineno,
                       text=" ".join(ast.unparse(s_.node).split())[:100])
    chk.floor(rule, n, 60, "call sites of functions that dereference their settings")


def r5(ctx, chk):
    """replacement templates of the locale tables refer only to groups their pattern defines: the regex module expands the
    template when the pattern first MATCHES, so a dangling \\2 raises regex.error for the strings that hit the entry"""
    import regex
    from ..core.data import LangData
    rule = "C02.R5"
    ld = ctx.memo("langdata", lambda: LangData(ctx.repo))
    n = 0
    # the wrappers the code puts around table patterns add no capturing group (else the numbering would shift)
    from .vocab import Extracted
    ex = ctx.memo("vocab_extracted", lambda: Extracted(ctx))
    if regex.compile(ex.simpl_template % "x").groups != 0:
        raise AnalysisError(rule, "the simplification wrapper %r adds capturing groups" % ex.simpl_template)
    from .util import relative_pattern_model
    m_ = relative_pattern_model(ctx)
    if m_ is None or regex.compile(m_["template"].format("x")).groups != 0 or not m_["body"].startswith("'|'.join(sorted(") \
            or not m_["body"].endswith(".replace('(\\\\d+', '(?P<n>\\\\d+')"):
        raise AnalysisError(rule, "_generate_relative_translations: the way the patterns of one key are joined changed: %s" % (m_ and (m_["template"], m_["body"][:80]),))
    wr = [m_["template"]]
    rel_wrapper = wr[0]

    def refs(template):
        out = {int(m) for m in regex.findall(r"\\(\d+)", template)}
        out |= {int(m) for m in regex.findall(r"\\g<(\d+)>", template)}
        return out

    def one(lang, where, pattern, template, kind):
        nonlocal n
        n += 1
        try:
            groups = regex.compile(pattern).groups
        except regex.error as e:
            chk.ob(rule, "%s %s: pattern %r compiles" % (lang, kind, pattern[:40]), False, "regex.error: %s" % e,
                   key={"language": lang, "where": where, "pattern": pattern[:60]}, file="dateparser/data/date_translation_data/%s.py" % lang,
                   function=None, line=None)
            return
        bad = sorted(r for r in refs(template) if r > groups)
        if bad:
            chk.ob(rule, "%s %s: template %r uses only groups of %r" % (lang, kind, template[:30], pattern[:40]), False,
                   "the template refers to group %s but the pattern defines %d group(s): regex.error (invalid group reference) is raised for "
                   "every string the pattern matches" % (bad, groups),
                   key={"language": lang, "where": where, "pattern": pattern[:60]}, file="dateparser/data/date_translation_data/%s.py" % lang,
                   function=None, line=None)

    def table(lang, where, info):
        for simp in info.get("simplifications", []) or []:
            if isinstance(simp, dict):
                for pat, tmpl in simp.items():
                    one(lang, where, str(pat), str(tmpl), "simplification")
        for tmpl, pats in (info.get("relative-type-regex", {}) or {}).items():
            # as the code compiles them: all patterns of a key joined longest-first, the number group named `n`
            joined = "|".join(sorted([str(x) for x in pats or []], key=len, reverse=True)).replace(r"(\d+", r"(?P<n>\d+")
            one(lang, where, rel_wrapper.format(joined), str(tmpl), "relative-type-regex")
    for lang in ld.languages():
        info = ld.info(lang)
        table(lang, lang, info)
        for loc, spec in (info.get("locale_specific", {}) or {}).items():
            table(lang, loc, spec)
    chk.ob(rule, "every replacement template of the %d locale table entries refers only to groups of its pattern" % n, True)
    chk.floor(rule, n, 1500, "pattern/template pairs in the locale tables")


# ---------------------------------------------------------------------------
def r1(ctx, chk):
    for e in ENTRIES:
        ctx.ix.func(e)
    ef, ex = build_effects(ctx, chk, "C02.R1")
    report_escapes(ctx, chk, "C02.R1", ef, ENTRIES, floor=60)
    for reason, sites in sorted(ex.used.items()):
        chk.note("exemption (%d sites): %s" % (len(sites), reason))
    chk.extra["exemptions_used"] = {r: sorted("%s | %s" % s for s in ss)[:6] for r, ss in ex.used.items()}
    chk.extra["untyped_arithmetic_sites_assumed_delta"] = len(ef.untyped_arith)
    chk.extra["call_sites_total"] = sum(len(v) for v in ctx.cg.sites.values())
    chk.extra["unresolved_internal_calls"] = [
        "%s:%d %s" % (s.fn.key, s.node.lineno, ast.unparse(s.node)[:60]) for s in ctx.cg.unresolved]
    chk.assume("operations outside the primitive table (DESIGN 1.1) raise no tracked exception class")
    chk.assume("call resolution: class-hierarchy + light type inference; receivers of unknown type fall back to name-based resolution")


# ---------------------------------------------------------------------------
def _calls_to(fn, name):
    return [n for n in iter_own_nodes(fn.node)
            if isinstance(n, ast.Call) and ast.unparse(n.func).split(".")[-1] == name]


def _stmt_of(fn, node):
    """the top-most simple statement of fn containing node"""
    for s in iter_own_stmts(fn.node.body):
        if isinstance(s, (ast.If, ast.For, ast.While, ast.Try, ast.With)):
            continue
        for n in ast.walk(s):
            if n is node:
                return s
    # node may be in a test / header
    for s in iter_own_stmts(fn.node.body):
        if isinstance(s, (ast.If, ast.While)):
            for n in ast.walk(s.test):
                if n is node:
                    return s
        if isinstance(s, ast.For):
            for n in ast.walk(s.iter):
                if n is node:
                    return s
    return None


def r2(ctx, chk):
    rule = "C02.R2"
    ix = ctx.ix
    # (a) DateDataParser.__init__: check_settings(settings) dominates the store of self._settings
    f = ix.func("dateparser.date:DateDataParser.__init__")
    g = CFG(f.node)
    checks = [_stmt_of(f, c) for c in _calls_to(f, "check_settings")]
    stores = [s for s in iter_own_stmts(f.node.body) if isinstance(s, ast.Assign)
              and any(isinstance(t, ast.Attribute) and t.attr == "_settings" for t in s.targets)]
    if not stores:
        raise AnalysisError(rule, "no store to self._settings in DateDataParser.__init__")
    for st in stores:
        ok = any(c is not None and g.dominates(c, st) for c in checks)
        chk.ob(rule, "DateDataParser.__init__: check_settings dominates `%s`" % ast.unparse(st), ok,
               "settings are stored (and later used for parsing) on a path that skips check_settings",
               key={"function": f.key, "construct": "check_settings dominates self._settings store"},
               file=f.file, function=f.qual, line=st.lineno)
    # every normal exit is dominated too
    dom = g.dominators()
    cids = set()
    for c in checks:
        if c is not None:
            cids |= set(g.nodes_of(c))
    ok = bool(cids) and bool(dom.get(g.exit.id, set()) & cids)
    chk.ob(rule, "DateDataParser.__init__: check_settings on every path to a normal return", ok,
           "a parser can be constructed without its settings being validated",
           key={"function": f.key, "construct": "check_settings dominates normal exit"},
           file=f.file, function=f.qual, line=f.node.lineno)
    # the decorated __init__ receives a Settings: apply_settings is applied
    chk.ob(rule, "DateDataParser.__init__ is wrapped by apply_settings", "apply_settings" in f.decorators(),
           "without the wrapper a settings dict reaches check_settings un-merged",
           key={"function": f.key, "construct": "decorator apply_settings"}, file=f.file, function=f.qual,
           line=f.node.lineno)

    # (b) dateparser.parse keeps the default parser only when settings._default
    p = ix.func("dateparser:parse")
    ifs = [s for s in iter_own_stmts(p.node.body) if isinstance(s, ast.If)
           and any(isinstance(n, ast.Call) and ast.unparse(n.func).endswith("DateDataParser") for n in ast.walk(s))]
    if not ifs:
        raise AnalysisError(rule, "dateparser.parse: no conditional construction of DateDataParser")
    for s in ifs:
        ok = _mentions_default(s.test)
        chk.ob(rule, "dateparser.parse: a caller-supplied settings dict always constructs (and validates) a parser",
               ok, "the guard that selects a fresh DateDataParser does not test settings._default, so a "
                   "call with settings= may reuse _default_parser and skip validation / ignore the settings",
               key={"function": p.key, "construct": "not settings._default in guard"},
               file=p.file, function=p.qual, line=s.lineno, text=ast.unparse(s.test))
        # no way out of parse() before that decision: every return is dominated by it
        gp = CFG(p.node)
        for r_ in [x for x in iter_own_stmts(p.node.body) if isinstance(x, ast.Return)]:
            chk.ob(rule, "dateparser.parse: the return at line %d comes after the decision to build (and validate) a parser" % r_.lineno,
                   gp.dominates(s, r_),
                   "parse() can return before a parser is built for the caller's settings: an invalid settings dict is accepted "
                   "for the inputs that take this exit",
                   key={"function": p.key, "construct": "return dominated by the parser decision"}, file=p.file, function=p.qual, line=r_.lineno,
                   text=" ".join(ast.unparse(r_).split())[:80])
        # settings= is forwarded
        for n in ast.walk(s):
            if isinstance(n, ast.Call) and ast.unparse(n.func).endswith("DateDataParser"):
                kw = {k.arg: ast.unparse(k.value) for k in n.keywords}
                chk.ob(rule, "dateparser.parse forwards settings=settings to DateDataParser",
                       kw.get("settings") == "settings",
                       "the per-call settings are not handed to the parser that validates them",
                       key={"function": p.key, "construct": "DateDataParser(settings=settings)"},
                       file=p.file, function=p.qual, line=n.lineno)
    chk.ob(rule, "dateparser.parse is wrapped by apply_settings", "apply_settings" in p.decorators(), "",
           key={"function": p.key, "construct": "decorator apply_settings"}, file=p.file, function=p.qual,
           line=p.node.lineno)

    # (c) apply_settings: TypeError for non-dict/non-Settings dominates f(...)
    w = ix.func("dateparser.conf:apply_settings.<locals>.wrapper")
    gw = CFG(w.node)
    fwd = [s for s in iter_own_stmts(w.node.body) if isinstance(s, ast.Return) and isinstance(s.value, ast.Call)
           and isinstance(s.value.func, ast.Name) and s.value.func.id in w.parent.params()]
    guards = [s for s in iter_own_stmts(w.node.body) if isinstance(s, ast.If)
              and "isinstance" in ast.unparse(s.test) and "Settings" in ast.unparse(s.test)
              and any(isinstance(x, ast.Raise) for x in s.body)]
    if not fwd:
        raise AnalysisError(rule, "apply_settings.wrapper: forwarding call f(*args, **kwargs) not found")
    for r in fwd:
        ok = any(gw.dominates(gd, r) for gd in guards)
        chk.ob(rule, "apply_settings: the Settings type test dominates the call of the wrapped function", ok,
               "a settings value that is neither dict nor Settings reaches the library",
               key={"function": w.key, "construct": "isinstance(..., Settings) guard dominates f()"},
               file=w.file, function=w.qual, line=r.lineno)
    # dict settings are merged through Settings.replace(mod_settings=...)
    rep = [n for n in iter_own_nodes(w.node) if isinstance(n, ast.Call) and ast.unparse(n.func).endswith(".replace")]
    ok = any(any(k.arg == "mod_settings" for k in n.keywords) and any(k.arg is None for k in n.keywords) for n in rep)
    chk.ob(rule, "apply_settings: a dict becomes settings.replace(mod_settings=<dict>, **<dict>)", ok,
           "check_settings validates only _mod_settings; without it an invalid key is never seen",
           key={"function": w.key, "construct": "replace(mod_settings=..., **...)"}, file=w.file, function=w.qual,
           line=w.node.lineno)

    # (d) check_settings: unknown key -> raise, before the per-key loop; type test raises
    cs = ix.func("dateparser.conf:check_settings")
    raises = [n for n in iter_own_nodes(cs.node) if isinstance(n, ast.Raise)]
    chk.ob(rule, "check_settings raises for unknown key, wrong type and wrong value", len(raises) >= 3,
           "fewer than three validation failures are raised (unknown key / type / value)",
           key={"function": cs.key, "construct": "three raise statements"}, file=cs.file, function=cs.qual,
           line=cs.node.lineno)
    loops = [s for s in iter_own_stmts(cs.node.body) if isinstance(s, ast.For)]
    chk.floor(rule + ".loops", len(loops), 2, "loops over the caller's settings in check_settings")
    for lp in loops:
        early = [x for x in ast.walk(ast.Module(body=lp.body, type_ignores=[])) if isinstance(x, (ast.Return, ast.Break))]
        chk.ob(rule, "check_settings: the loop `for %s in %s` examines every setting (no return/break in its body)" % (
            ast.unparse(lp.target), ast.unparse(lp.iter)[:40]), not early,
            "the loop can stop before the remaining settings were validated (line %s): an invalid setting listed later is accepted"
            % [x.lineno for x in early],
            key={"function": cs.key, "construct": "validation loop runs to completion: " + ast.unparse(lp.iter)[:40]},
            file=cs.file, function=cs.qual, line=lp.lineno)
    for helper in ("_check_repeated_values", "_check_require_part", "_check_parsers", "_check_default_languages", "_check_between_0_and_1"):
        h = ctx.ix.funcs.get("dateparser.conf:" + helper)
        if h is None:
            continue
        has_raise = any(isinstance(x, ast.Raise) for x in iter_own_nodes(h.node))
        chk.ob(rule, "%s can reject (raises SettingValidationError)" % helper, has_raise, "the extra check never raises",
               key={"function": h.key, "construct": "extra check raises"}, file=h.file, function=h.qual, line=h.node.lineno)
    src = [s for s in iter_own_stmts(cs.node.body) if isinstance(s, ast.Assign) and "_mod_settings" in ast.unparse(s.value)]
    chk.ob(rule, "check_settings iterates the caller's modified settings (settings._mod_settings)", bool(src), "",
           key={"function": cs.key, "construct": "reads _mod_settings"}, file=cs.file, function=cs.qual,
           line=cs.node.lineno)


def _mentions_default(test):
    for n in ast.walk(test):
        if isinstance(n, ast.UnaryOp) and isinstance(n.op, ast.Not) and isinstance(n.operand, ast.Attribute) \
                and n.operand.attr == "_default":
            return True
    return False


# ---------------------------------------------------------------------------
def _dict_literal_keys(node):
    if not isinstance(node, ast.Dict):
        return None
    out = []
    for k in node.keys:
        if not isinstance(k, ast.Constant):
            return None
        out.append(k.value)
    return out


def _find_local_literal(fn, name):
    vals = [n.value for n in iter_own_nodes(fn.node) if isinstance(n, ast.Assign)
            and any(isinstance(t, ast.Name) and t.id == name for t in n.targets)]
    return vals[-1] if vals else None


def settings_values_table(ctx, rule="C02.R3"):
    """{setting: {"type": name, "values": tuple|None|"<expr>"}} from check_settings"""
    from .util import dict_with_keys
    cs = ctx.ix.func("dateparser.conf:check_settings")
    lit = dict_with_keys(cs, ["DATE_ORDER", "PARSERS"])
    if not isinstance(lit, ast.Dict):
        raise AnalysisError(rule, "check_settings.settings_values is not a dict literal")
    out = {}
    for k, v in zip(lit.keys, lit.values):
        if not isinstance(k, ast.Constant) or not isinstance(v, ast.Dict):
            raise AnalysisError(rule, "settings_values entry is not literal")
        ent = {}
        for kk, vv in zip(v.keys, v.values):
            ent[kk.value] = vv
        out[k.value] = ent
    return out


def _range_validators(ctx, chk, rule):
    """a validator named _check_between_<A>_and_<B> (its message says "between A and B") accepts exactly the closed interval:
    its validity expression is evaluated at A, B, the midpoint and just outside"""
    import re as _re
    from .c15 import _NoValue, _const_eval
    n = 0
    for f in ctx.ix.module("dateparser.conf").functions.values():
        m = _re.fullmatch(r"_check_between_(\d+)_and_(\d+)", f.name)
        if not m:
            continue
        a, b = float(m.group(1)), float(m.group(2))
        p = f.params()[-1]
        exprs = [x.value for x in iter_own_nodes(f.node) if isinstance(x, ast.Assign) and isinstance(x.value, (ast.Compare, ast.BoolOp))]
        tests = [x.test for x in iter_own_nodes(f.node) if isinstance(x, ast.If) and any(isinstance(y, ast.Raise) for y in ast.walk(x))]
        if len(exprs) != 1 or len(tests) != 1:
            raise AnalysisError(rule, "%s: validity expression not found" % f.name)
        n += 1
        try:
            inside = [_const_eval(exprs[0], {p: v}) for v in (a, (a + b) / 2, b)]
            outside = [_const_eval(exprs[0], {p: v}) for v in (a - 0.5, b + 0.5)]
        except _NoValue as e:
            raise AnalysisError(rule, "%s: validity expression is not closed over the value (%s)" % (f.name, e))
        chk.ob(rule, "%s accepts %g, %g and %g and rejects %g and %g" % (f.name, a, (a + b) / 2, b, a - 0.5, b + 0.5),
               all(inside) and not any(outside),
               "`%s` evaluates to %s inside and %s outside: an end point of the documented range is rejected (or a value outside it accepted)"
               % (" ".join(ast.unparse(exprs[0]).split()), inside, outside),
               key={"function": f.key, "construct": "closed range"}, file=f.file, function=f.qual, line=f.node.lineno)
    chk.floor(rule + ".ranges", n, 1, "range validators")


def _documented_defaults(ctx, chk, rule):
    """docs/settings.rst says "``NAME``: ... defaults to ``VALUE``": the shipped default table agrees (the documentation is the
    only statement inside the repository of what the defaults are meant to be)"""
    import re as _re
    from ..core.data import module_literal
    try:
        doc = ctx.repo.text("docs/settings.rst")
    except Exception:
        chk.note("docs/settings.rst not present: documented defaults not compared")
        return
    dflt = module_literal(ctx.repo, "dateparser_data/settings.py", "settings")
    n = 0
    current = None
    stated = {}
    for para in doc.split("\n\n"):
        m = _re.match(r"\s*``([A-Z_]+)``:(.*)", para, _re.S)
        if m:
            current, rest = m.group(1), m.group(2)
        elif current is not None and _re.match(r"\s*defaults? to\b", para, _re.I):
            rest = para                      # "Defaults to ``False``." in a paragraph of its own, after the setting's description
        else:
            if para.strip() and not para.startswith((" ", "\t", "..")) and not m:
                pass
            continue
        mv = _re.search(r"(?i)\bdefaults? to\s+(?:``([^`]+)``|(True|False|None|local timezone|-?\d+(?:\.\d+)?)\b)", rest)
        if not mv or current not in dflt or current in stated:
            continue
        txt = mv.group(1) if mv.group(1) is not None else mv.group(2)
        if txt == "local timezone":
            txt = "'local'"
        try:
            want = ast.literal_eval(txt)
        except Exception:
            want = txt
        stated[current] = want
    for name, want in stated.items():
        n += 1
        have = dflt[name]
        ok = have == want or (want is None and have in (None, False, "")) or (want == "current date and time" and not have)
        chk.ob(rule, "default of %s is the documented %r" % (name, want), ok,
               "dateparser_data/settings.py has %r, docs/settings.rst says %r" % (have, want),
               key={"table": "settings defaults", "setting": name}, file="dateparser_data/settings.py", function="settings", line=None)
    chk.floor(rule + ".defaults", n, 10, "settings whose default the documentation states")


def r3(ctx, chk):
    rule = "C02.R3"
    ix = ctx.ix
    _range_validators(ctx, chk, rule)
    _documented_defaults(ctx, chk, rule)
    # parsers: dispatch dict keys == validated names >= defaults
    init = ix.func("dateparser.date:_DateLocaleParser.__init__")
    disp = None
    for n in iter_own_nodes(init.node):
        if isinstance(n, ast.Assign) and any(isinstance(t, ast.Attribute) and t.attr == "_parsers" for t in n.targets):
            disp = n.value
    keys = _dict_literal_keys(disp) if disp is not None else None
    if keys is None:
        raise AnalysisError(rule, "_DateLocaleParser._parsers is not a dict literal with constant keys")
    cp = ix.func("dateparser.conf:_check_parsers")
    from .util import dict_with_keys, string_list_literals
    lists = string_list_literals(cp, 3)
    if len(lists) != 1:
        raise AnalysisError(rule, "_check_parsers: expected one literal list of parser names, found %d" % len(lists))
    existing = ast.literal_eval(lists[0])
    defaults = module_literal(ctx.repo, "dateparser_data/settings.py", "default_parsers")
    chk.ob(rule, "PARSERS: dispatch keys %s ⊇ validated names %s" % (sorted(keys), sorted(existing)),
           set(existing) <= set(keys),
           "a parser name accepted by _check_parsers has no entry in _DateLocaleParser._parsers -> KeyError in _parse: %s"
           % sorted(set(existing) - set(keys)),
           key={"table": "PARSERS", "construct": "validated ⊆ dispatch"}, file=init.file, function=init.qual,
           line=init.node.lineno)
    chk.ob(rule, "PARSERS: defaults %s ⊆ dispatch keys" % defaults, set(defaults) <= set(keys),
           "a default parser name has no dispatch entry: %s" % sorted(set(defaults) - set(keys)),
           key={"table": "PARSERS", "construct": "defaults ⊆ dispatch"}, file=init.file, function=init.qual,
           line=init.node.lineno)
    # every dispatch value is an existing method
    cls = init.cls
    for k, v in zip(disp.keys, disp.values):
        ok = isinstance(v, ast.Attribute) and isinstance(v.value, ast.Name) and v.value.id == "self" \
            and cls.find_method(v.attr) is not None
        chk.ob(rule, "PARSERS[%r] -> %s is a method" % (k.value, ast.unparse(v)), ok,
               "dispatch value is not a method of _DateLocaleParser",
               key={"table": "PARSERS", "construct": "value of %s" % k.value}, file=init.file, function=init.qual,
               line=v.lineno)
    # the dispatch is by settings.PARSERS
    par = ix.func("dateparser.date:_DateLocaleParser._parse")
    subs = [n for n in iter_own_nodes(par.node) if isinstance(n, ast.Subscript) and ast.unparse(n.value) == "self._parsers"]
    chk.floor(rule + ".dispatch", len(subs), 1, "subscripts of self._parsers in _parse")

    sv = settings_values_table(ctx)
    default_settings = module_literal(ctx.repo, "dateparser_data/settings.py", "settings")
    # every default setting key is known to check_settings, with a type
    for k in default_settings:
        ok = k in sv and "type" in sv[k]
        chk.ob(rule, "setting %s has a validation entry with a type" % k, ok,
               "a documented setting is rejected as unknown or accepted untyped",
               key={"table": "settings_values", "construct": k}, file="dateparser/conf.py",
               function="check_settings", line=None)
    # option tables of the preference settings
    for fkey, setting in (("dateparser.utils:set_correct_day_from_settings", "PREFER_DAY_OF_MONTH"),
                          ("dateparser.utils:set_correct_month_from_settings", "PREFER_MONTH_OF_YEAR")):
        f = ix.func(fkey)
        opt = dict_with_keys(f, ["first", "last"])
        okeys = _dict_literal_keys(opt) if opt is not None else None
        if okeys is None:
            raise AnalysisError(rule, "%s.options is not a dict literal" % fkey)
        try:
            vals = ast.literal_eval(sv[setting]["values"])
        except Exception:
            raise AnalysisError(rule, "settings_values[%s]['values'] is not a literal" % setting)
        chk.ob(rule, "%s: validated values %s ⊆ option table keys %s" % (setting, sorted(vals), sorted(okeys)),
               set(vals) <= set(okeys),
               "a validated value has no entry in the options dict -> KeyError: %s" % sorted(set(vals) - set(okeys)),
               key={"table": setting, "construct": "validated ⊆ options"}, file=f.file, function=f.qual,
               line=f.node.lineno)
        dv = default_settings.get(setting)
        chk.ob(rule, "%s: default %r is a validated value" % (setting, dv), dv in vals, "",
               key={"table": setting, "construct": "default valid"}, file="dateparser_data/settings.py",
               function="settings", line=None)
    # PREFER_DATES_FROM default
    try:
        pdf = ast.literal_eval(sv["PREFER_DATES_FROM"]["values"])
    except Exception:
        raise AnalysisError(rule, "PREFER_DATES_FROM values not literal")
    chk.ob(rule, "PREFER_DATES_FROM default is a validated value", default_settings.get("PREFER_DATES_FROM") in pdf, "",
           key={"table": "PREFER_DATES_FROM", "construct": "default valid"}, file="dateparser_data/settings.py",
           function="settings", line=None)
    # DATE_ORDER: values derive from date_order_chart; chart_list has the same keys
    dov = ast.unparse(sv["DATE_ORDER"]["values"]) if "values" in sv["DATE_ORDER"] else ""
    chk.ob(rule, "DATE_ORDER values are derived from date_order_chart", "date_order_chart" in dov,
           "DATE_ORDER is validated against something other than the dispatch table",
           key={"table": "DATE_ORDER", "construct": "values from date_order_chart"}, file="dateparser/conf.py",
           function="check_settings", line=None)
    chart = module_literal(ctx.repo, "dateparser/parser.py", "date_order_chart")
    from .util import date_order_results
    from ..core.minieval import Unknown as _Unknown
    try:
        answers, rdo, _c = date_order_results(ctx)
    except _Unknown as e_:
        raise AnalysisError(rule, "resolve_date_order: the answer is computed by something this rule cannot evaluate (%s)" % e_)
    missing = sorted(k for k, (l_, s_) in answers.items() if l_ is KeyError or s_ is KeyError)
    chk.ob(rule, "DATE_ORDER: chart_list keys == date_order_chart keys", not missing,
           "an order accepted by validation is missing from chart_list -> KeyError: %s" % missing,
           key={"table": "DATE_ORDER", "construct": "chart_list == date_order_chart"}, file=rdo.file,
           function=rdo.qual, line=rdo.node.lineno)
    chk.ob(rule, "DATE_ORDER default is a chart key", default_settings.get("DATE_ORDER") in chart, "",
           key={"table": "DATE_ORDER", "construct": "default valid"}, file="dateparser_data/settings.py",
           function="settings", line=None)
    # the no-spaces parser's per-order format table covers every chart value
    from .util import nsp_order_table
    tbl, nsp = nsp_order_table(ctx)
    if tbl is None:
        raise AnalysisError(rule, "_no_spaces_parser.date_formats is not a dict literal")
    dfk = list(tbl)
    chk.ob(rule, "_no_spaces_parser.date_formats keys == date_order_chart values", set(dfk) == set(chart.values()),
           "nsp.date_formats[order] raises KeyError for: %s" % sorted(set(chart.values()) - set(dfk)),
           key={"table": "DATE_ORDER", "construct": "nsp.date_formats covers chart values"}, file=nsp.file,
           function=nsp.qual, line=nsp.node.lineno)
    # period strings assigned by the parsers ⊆ the tuple in _is_valid_date_data
    iv = ix.func("dateparser.date:_DateLocaleParser._is_valid_date_data")
    allowed = None
    for n in iter_own_nodes(iv.node):
        if isinstance(n, ast.Compare) and isinstance(n.ops[0], (ast.NotIn, ast.In)) and isinstance(n.comparators[0], (ast.Tuple, ast.List, ast.Set)) \
                and all(isinstance(e_, ast.Constant) and isinstance(e_.value, str) for e_ in n.comparators[0].elts):
            try:
                allowed = set(ast.literal_eval(n.comparators[0]))
            except Exception:
                pass
    if allowed is None:
        raise AnalysisError(rule, "_is_valid_date_data: period tuple not found")
    chk.ob(rule, "valid periods are exactly time/day/week/month/year", allowed == {"time", "day", "week", "month", "year"},
           "the set of accepted periods changed: %s" % sorted(allowed),
           key={"table": "period", "construct": "allowed set"}, file=iv.file, function=iv.qual, line=iv.node.lineno)
    # sentence splitter groups
    sp = ix.func("dateparser.languages.locale:Locale._sentence_split")
    sd = dict_with_keys(sp, [1, 2])
    sdk = _dict_literal_keys(sd) if sd is not None else None
    if sdk is None:
        raise AnalysisError(rule, "Locale._sentence_split.splitters_dict is not a dict literal")
    ld = ctx.memo("langdata", lambda: LangData(ctx.repo))
    used = set()
    for lang, loc in ld.all_locales():
        g = ld.locale_info(lang, loc).get("sentence_splitter_group")
        if g is not None:
            used.add(g)
    chk.ob(rule, "sentence_splitter_group values %s ⊆ splitters_dict keys %s" % (sorted(used), sorted(sdk)),
           used <= set(sdk) and 1 in sdk, "a locale names a splitter group without an entry -> KeyError",
           key={"table": "splitters_dict", "construct": "data ⊆ keys"}, file=sp.file, function=sp.qual,
           line=sp.node.lineno)
    chk.floor(rule, chk.instances.get(rule, 0), 25, "table-agreement obligations")


# ---------------------------------------------------------------------------
def r4(ctx, chk):
    rule = "C02.R4"
    f = ctx.ix.func("dateparser.date:DateDataParser.get_date_data")
    g = CFG(f.node)
    p0 = f.params()[1] if len(f.params()) > 1 else None
    if p0 is None:
        raise AnalysisError(rule, "get_date_data has no date string parameter")
    guards = []
    for s in iter_own_stmts(f.node.body):
        if isinstance(s, ast.If) and any(isinstance(x, ast.Raise) and "TypeError" in ast.unparse(x) for x in s.body):
            t = ast.unparse(s.test)
            if "isinstance(%s, str)" % p0 in t and isinstance(s.test, ast.UnaryOp):
                guards.append(s)
    uses = []
    for s in iter_own_stmts(f.node.body):
        if s in guards or isinstance(s, (ast.If, ast.For, ast.While, ast.Try, ast.With)) and s in guards:
            continue
        exprs = [s.test] if isinstance(s, (ast.If, ast.While)) else [s.iter] if isinstance(s, ast.For) else \
            [] if isinstance(s, (ast.Try, ast.With)) else [s]
        for e in exprs:
            if any(isinstance(n, ast.Name) and n.id == p0 and isinstance(n.ctx, ast.Load) for n in ast.walk(e)):
                if not any(e is gd.test for gd in guards):
                    uses.append(s)
    if not uses:
        raise AnalysisError(rule, "no use of the date string in get_date_data")
    for u in uses:
        ok = any(g.dominates(gd, u) for gd in guards)
        chk.ob(rule, "get_date_data: the str type test dominates `%s`" % ast.unparse(u)[:70].split("\n")[0], ok,
               "a non-str input reaches the parser before (or without) the TypeError guard",
               key={"function": f.key, "construct": "isinstance guard dominates use: " + " ".join(ast.unparse(u).split())[:80]},
               file=f.file, function=f.qual, line=u.lineno)
    # constructor argument checks dominate the stores of the same arguments
    init = ctx.ix.func("dateparser.date:DateDataParser.__init__")
    gi = CFG(init.node)
    checked = {}
    for s in iter_own_stmts(init.node.body):
        if isinstance(s, ast.If) and any(isinstance(x, ast.Raise) and "TypeError" in ast.unparse(x) for x in s.body):
            for n in ast.walk(s.test):
                if isinstance(n, ast.Call) and isinstance(n.func, ast.Name) and n.func.id == "isinstance" and isinstance(n.args[0], ast.Name):
                    checked.setdefault(n.args[0].id, []).append(s)
    for arg in ("languages", "locales", "region", "try_previous_locales", "use_given_order"):
        stores = [s for s in iter_own_stmts(init.node.body) if isinstance(s, ast.Assign)
                  and any(isinstance(t, ast.Attribute) and t.attr == arg for t in s.targets)]
        if arg not in init.params() or not stores:
            raise AnalysisError(rule, "DateDataParser.__init__: parameter/store %s not found" % arg)
        for st in stores:
            ok = any(gi.dominates(gd, st) for gd in checked.get(arg, []))
            chk.ob(rule, "DateDataParser.__init__: type test of %s dominates its store" % arg, ok,
                   "a wrongly typed %s is stored without the documented TypeError" % arg,
                   key={"function": init.key, "construct": "type test dominates store of " + arg},
                   file=init.file, function=init.qual, line=st.lineno)
    # _DateLocaleParser date_formats type check
    dl = ctx.ix.func("dateparser.date:_DateLocaleParser.__init__")
    has = any(isinstance(s, ast.If) and "date_formats" in ast.unparse(s.test) and "isinstance" in ast.unparse(s.test)
              and any(isinstance(x, ast.Raise) for x in s.body) for s in iter_own_stmts(dl.node.body))
    chk.ob(rule, "_DateLocaleParser.__init__ raises TypeError for a wrongly typed date_formats", has, "",
           key={"function": dl.key, "construct": "date_formats type test"}, file=dl.file, function=dl.qual,
           line=dl.node.lineno)

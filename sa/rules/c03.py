"""C03 — results depend only on the call's arguments, never on call history (structural clauses).

R1 caller-owned containers (settings dict and its list values, languages, locales, date_formats) are never mutated
R2 every in-place write to a field of a (shared) Settings object is restored on all exits of the function
R3 cache discipline: single writer, keys = (settings hash, locale name), key-sparing eviction, hash covers all keys
R4 set-iteration order does not reach observable output
"""
import ast

from ..core.cfg import CFG
from ..core.data import LangData, module_literal
from ..core.index import iter_own_nodes, iter_own_stmts
from ..core.repo import AnalysisError
from ..core.taint import Taint
from .escape_common import build_effects

LEVEL = "other"
EXPLANATION = (
    "Alias/taint analysis from the entry points' container arguments (and the list-valued settings they carry) to "
    "every in-place mutation; a restore-on-all-exits rule on the CFG with class-refined exception edges for every "
    "temporary write to a field of a Settings object (the objects are cached per settings hash and shared between "
    "calls); single-writer / key / eviction rules for the five class-level dictionary caches; the settings hash "
    "iterates every key with its value; set-typed values must not be joined, indexed or early-returned from. "
    "Decides these necessary conditions of history-independence; does not decide equality of results across histories."
)

ENTRY_PARAMS = {
    "dateparser:parse": ["date_formats", "languages", "locales", "settings"],
    "dateparser.date:DateDataParser.__init__": ["languages", "locales", "settings"],
    "dateparser.date:DateDataParser.get_date_data": ["date_formats"],
    "dateparser.search:search_dates": ["languages", "settings"],
    "dateparser.search.search:DateSearchWithDetection.search_dates": ["languages", "settings"],
    "dateparser.search.search:DateSearchWithDetection.detect_language": ["languages"],
}
SETTINGS = "C:dateparser.conf:Settings"


def run(ctx, chk):
    r1(ctx, chk)
    r2(ctx, chk)
    r3(ctx, chk)
    r4(ctx, chk)
    r5(ctx, chk)
    from .c13 import previous_locales_flag_rule
    previous_locales_flag_rule(ctx, chk, "C03.R6")
    r7(ctx, chk)
    r8(ctx, chk)
    from .c13 import locale_language_pairing_rule
    locale_language_pairing_rule(ctx, chk, "C03.R9")      # a mis-paired Locale is cached process-wide under its name
    r10(ctx, chk)
    from .c02 import settings_forwarding_rule
    settings_forwarding_rule(ctx, chk, "C03.R11")     # a missing settings argument shows only on the call that first fills a per-locale cache
    r12(ctx, chk)


def r8(ctx, chk):
    """per-call state hung on a long-lived object (`self._dictionary._settings = settings`) must be refreshed on EVERY access:
    a store of a parameter-dependent value into a field of a lazily created object must not sit under that object's creation
    guard, or the first caller's value serves every later caller"""
    rule = "C03.R8"
    from ..core.ctx import conjuncts, enclosing_tests
    from ..core.heap import Heap
    from . import c20
    heap = ctx.memo("heap", lambda: Heap(ctx))
    reach = ctx.cg.reachable(c20.ENTRIES)
    n = 0
    for f, node, kind, target, why in heap.writes(reach):
        if kind != "attr" or not isinstance(node, ast.Assign):
            continue
        tg = node.targets[0]
        if not (isinstance(tg, ast.Attribute) and isinstance(tg.value, ast.Attribute) and isinstance(tg.value.value, ast.Name) and tg.value.value.id == "self"):
            continue
        params = set(f.params()) - {"self", "cls"}
        if not ({x.id for x in ast.walk(node.value) if isinstance(x, ast.Name)} & params):
            continue
        n += 1
        place = ast.unparse(tg.value)
        under_creation = any(
            (isinstance(a, ast.Compare) and ast.unparse(a.left) == place and ast.unparse(a.comparators[0]) == "None" and (
                (p and isinstance(a.ops[0], ast.Is)) or (not p and isinstance(a.ops[0], ast.IsNot)))) or (ast.unparse(a) == place and not p)
            for t, pol in enclosing_tests(f.node, node) for a, p in conjuncts(t, pol))
        chk.ob(rule, "%s: `%s` is refreshed on every access, not only when %s is created" % (f.qual, " ".join(ast.unparse(node).split())[:60], place),
               not under_creation,
               "the caller-dependent value is stored only while creating %s: every later call gets the first caller's %s" % (place, tg.attr),
               key={"function": f.key, "construct": "refresh of %s.%s" % (place, tg.attr)}, file=f.file, function=f.qual, line=node.lineno)
    chk.floor(rule, n, 2, "caller-dependent fields hung on long-lived objects")


def r7(ctx, chk):
    """the per-language tables kept for the life of the process (LocaleDataLoader._loaded_languages, the data modules'
    `info`) are never mutated through an alias: a Locale gets a private copy"""
    rule = "C03.R7"
    ix = ctx.ix
    ld = ix.func("dateparser.languages.loader:LocaleDataLoader._load_data")

    def is_source(e, f):
        if f is not ld:
            return False
        if isinstance(e, ast.Subscript) and ast.unparse(e.value) == "self._loaded_languages":
            return True
        if isinstance(e, ast.Call) and isinstance(e.func, ast.Name) and e.func.id == "getattr" and e.args \
                and isinstance(e.args[0], ast.Call) and ast.unparse(e.args[0].func) == "import_module":
            return True
        return False
    t = Taint(ctx, is_source)
    n_src = sum(1 for n in iter_own_nodes(ld.node) if is_source(n, ld))
    chk.floor(rule, n_src, 2, "reads of the process-wide language tables in _load_data")
    sinks = t.mutation_sinks(None)
    for f, node, what in sinks:
        chk.ob(rule, "%s: %s" % (f.key, what), False,
               "in-place mutation of a table shared by every locale of the language for the rest of the process (%s): what a later "
               "locale of that language knows then depends on which locales were used before" % what,
               key={"function": f.key, "construct": " ".join(ast.unparse(node).split())[:120]}, file=f.file, function=f.qual,
               line=node.lineno, text=ast.unparse(node)[:160])
    chk.ob(rule, "no mutation reaches an alias of the process-wide language tables (%d aliasing places examined)" % (len(t.vars) + len(t.fields)), not sinks,
           "", key={"construct": "language tables immutable"}, file=ld.file, function=ld.qual, line=ld.node.lineno)
    chk.sample({"rule": rule, "aliases": ["%s.%s" % (k[0].split(":")[1], k[1]) for k in sorted(t.vars)][:12],
                "fields": ["%s.%s" % (k[0].split(":")[1], k[1]) for k in sorted(t.fields)]})


# ---------------------------------------------------------------------------
def _list_settings(ctx):
    d = module_literal(ctx.repo, "dateparser_data/settings.py", "settings")
    return {k for k, v in d.items() if isinstance(v, (list, dict, set))}


def r1(ctx, chk):
    rule = "C03.R1"
    ix, ti = ctx.ix, ctx.ti
    for k in ENTRY_PARAMS:
        ix.func(k)
    listy = _list_settings(ctx) | {"_mod_settings"}

    def is_source(e, f):
        if isinstance(e, ast.Name) and f.key in ENTRY_PARAMS and e.id in ENTRY_PARAMS[f.key] and e.id in f.params():
            # the decorated entry's own `settings` is already the merged Settings object: its *fields* are sources
            return e.id != "settings"
        if isinstance(e, ast.Attribute) and e.attr in listy:
            return SETTINGS in ti.type_of(e.value, f)
        # the wrapper sees the caller's dict itself
        if f.key == "dateparser.conf:apply_settings.<locals>.wrapper":
            if isinstance(e, ast.Call) and ast.unparse(e.func) == "kwargs.get" and e.args and \
                    isinstance(e.args[0], ast.Constant) and e.args[0].value == "settings":
                return True
            if isinstance(e, ast.Subscript) and ast.unparse(e.value) == "kwargs" and isinstance(e.slice, ast.Constant) \
                    and e.slice.value == "settings":
                return True
        return False

    t = Taint(ctx, is_source)
    reach = ctx.cg.reachable(list(ENTRY_PARAMS) + ["dateparser.calendars:CalendarBase.get_date"])
    sinks = t.mutation_sinks(reach)
    n_places = len(t.vars) + len(t.fields)
    chk.floor(rule, n_places, 10, "variables/fields that may alias caller-owned containers")
    seen = set()
    for f, node, what in sinks:
        # `kwargs["settings"] = ...` stores INTO the wrapper's own fresh kwargs dict: the container is not tainted,
        # only handled when the mutated expression itself is tainted (mutation_sinks checks that)
        key = {"function": f.key, "construct": " ".join(ast.unparse(node).split())[:120]}
        chk.ob(rule, "%s: %s" % (f.key, what), False,
               "in-place mutation of a container that may be the caller's own object (%s)" % what,
               key=key, file=f.file, function=f.qual, line=node.lineno, text=ast.unparse(node)[:160])
        seen.add(f.key)
    # obligations that hold: one per tainted place (no mutation reaches it)
    for k in sorted(t.vars)[:400]:
        chk.ob(rule, "no in-place mutation through %s.%s" % (k[0].split(":")[1], k[1]), True, nontrivial=True)
    for k in sorted(t.fields):
        chk.ob(rule, "no in-place mutation through field %s.%s" % (k[0].split(":")[1], k[1]), True)
    chk.sample({"rule": rule, "aliases": ["%s.%s" % (k[0].split(":")[1], k[1]) for k in sorted(t.vars)][:12],
                "fields": ["%s.%s" % (k[0].split(":")[1], k[1]) for k in sorted(t.fields)], "mutations_found": len(sinks)})
    # copies at the API boundary that the analysis relies on (informational): self.languages = list(languages)
    # the settings dict is not kept: apply_settings replaces it by settings.replace(...)
    w = ix.func("dateparser.conf:apply_settings.<locals>.wrapper")
    ok = any(isinstance(n, ast.Call) and ast.unparse(n.func).endswith(".replace") and any(k.arg is None for k in n.keywords)
             for n in iter_own_nodes(w.node))
    chk.ob(rule, "apply_settings builds a new Settings from the caller's dict (**dict) instead of keeping the dict", ok,
           "the caller's dict object itself is stored", key={"function": w.key, "construct": "settings.replace(**dict)"},
           file=w.file, function=w.qual, line=w.node.lineno)


# ---------------------------------------------------------------------------
def settings_stores(ctx):
    """(func, Assign node, target Attribute) for every store to an upper-case field of a Settings-typed receiver
    outside the Settings class itself"""
    out = []
    for f in ctx.ix.funcs.values():
        if f.cls is not None and f.cls.key == "dateparser.conf:Settings":
            continue
        if f.file.startswith("dateparser/languages/validation") or "custom_language_detection" in f.file:
            continue
        for n in iter_own_nodes(f.node):
            if isinstance(n, (ast.Assign, ast.AugAssign)):
                tgs = n.targets if isinstance(n, ast.Assign) else [n.target]
                for t in tgs:
                    if isinstance(t, ast.Attribute) and t.attr.isupper() and SETTINGS in ctx.ti.type_of(t.value, f):
                        out.append((f, n, t))
    return out


def r2(ctx, chk):
    rule = "C03.R2"
    ef, ex = build_effects(ctx, chk, rule)
    stores = settings_stores(ctx)
    chk.floor(rule, len(stores), 3, "in-place stores to Settings fields")
    by_fn = {}
    for f, n, t in stores:
        by_fn.setdefault(f.key, []).append((n, t))
    for fk, items in sorted(by_fn.items()):
        f = ctx.ix.funcs[fk]
        classes = ef.stmt_classes(f)

        def may_raise(node, _c=classes):
            d = _c.get(id(node))
            if d:
                return set(d)
            # tests/headers: sites are keyed by the owning statement
            return None
        # effects key sites by statement; CFG asks per test expression for If/While/For: map those too
        stmt_of_expr = {}
        for s in iter_own_stmts(f.node.body):
            if isinstance(s, (ast.If, ast.While)):
                stmt_of_expr[id(s.test)] = s
            elif isinstance(s, ast.For):
                stmt_of_expr[id(s.iter)] = s
            elif isinstance(s, ast.With):
                for it in s.items:
                    stmt_of_expr[id(it.context_expr)] = s

        def mr(node):
            s = stmt_of_expr.get(id(node))
            d = classes.get(id(s if s is not None else node))
            return set(d) if d else None
        g = CFG(f.node, may_raise=mr, exc_sub=ef.h.issub, handler_names=lambda h: ef.handler_names(h, f))
        for field in sorted({t.attr for n, t in items}):
            recv = {ast.unparse(t.value) for n, t in items if t.attr == field}
            saved = set()
            for s in iter_own_stmts(f.node.body):
                if isinstance(s, ast.Assign) and len(s.targets) == 1 and isinstance(s.targets[0], ast.Name) \
                        and isinstance(s.value, ast.Attribute) and s.value.attr == field and ast.unparse(s.value.value) in recv:
                    saved.add(s.targets[0].id)
            restores, modifying = [], []
            for n, t in items:
                if t.attr != field:
                    continue
                if isinstance(n, ast.Assign) and isinstance(n.value, ast.Name) and n.value.id in saved:
                    restores.append(n)
                else:
                    modifying.append(n)
            rids = set()
            for r in restores:
                rids |= set(g.nodes_of(r))
            for m in modifying:
                exempt = _normalize_exemption(ctx, f, m, field)
                if exempt:
                    chk.ob(rule, "%s: `%s` (exempt: %s)" % (f.qual, ast.unparse(m), exempt), True)
                    chk.note("exemption: %s.%s store: %s" % (f.qual, field, exempt))
                    continue
                starts = set()
                for mid in g.nodes_of(m):
                    for nxt, label in g.succ[mid]:
                        if not label.startswith("exc"):
                            starts.add(nxt)
                path = g.path_avoiding(starts, {g.exit.id, g.raise_.id}, rids)
                detail = ""
                if path is not None:
                    last = path[-1]
                    how = "normal return" if last == g.exit.id else "exception"
                    lab = ""
                    if len(path) >= 2:
                        for nxt, label in g.succ[path[-2]]:
                            if nxt == last:
                                lab = label
                    cls_why = ""
                    if lab.startswith("exc:"):
                        st = g.nodes[path[-2]].stmt
                        cls_why = " %s from %s" % (lab[4:], (classes.get(id(st)) or {}).get(lab[4:], "?"))
                    detail = ("the override of %s.%s is left on the shared Settings object when the function exits by %s%s "
                              "(path: %s)" % (sorted(recv)[0], field, how, cls_why,
                                              " > ".join("L%s" % getattr(g.nodes[i].stmt, "lineno", "-") for i in path[:8])))
                    if not restores:
                        detail = "no restore of the saved value anywhere in the function; " + detail
                if path is not None and not restores:
                    cov = _covered_by_callers(ctx, ef, f, field, 0)
                    if cov:
                        path = None
                        chk.note("%s.%s: restored by the caller(s) %s" % (f.qual, field, cov))
                chk.ob(rule, "%s: `%s` is undone on every exit" % (f.qual, " ".join(ast.unparse(m).split())[:80]),
                       path is None, detail,
                       key={"function": fk, "construct": "restore %s on all exits" % field}, file=f.file, function=f.qual,
                       line=m.lineno, text=ast.unparse(m))


def _cfg_with_effects(ctx, ef, f):
    classes = ef.stmt_classes(f)
    stmt_of_expr = {}
    for s in iter_own_stmts(f.node.body):
        if isinstance(s, (ast.If, ast.While)):
            stmt_of_expr[id(s.test)] = s
        elif isinstance(s, ast.For):
            stmt_of_expr[id(s.iter)] = s
        elif isinstance(s, ast.With):
            for it in s.items:
                stmt_of_expr[id(it.context_expr)] = s

    def mr(node):
        s = stmt_of_expr.get(id(node))
        d = classes.get(id(s if s is not None else node))
        return set(d) if d else None
    return CFG(f.node, may_raise=mr, exc_sub=ef.h.issub, handler_names=lambda h: ef.handler_names(h, f))


def _restores_around(ctx, ef, g, call_node, field):
    """in g: a value saved from <X>.field before the call is stored back on every path from the call to an exit"""
    saved = {}
    for s in iter_own_stmts(g.node.body):
        if isinstance(s, ast.Assign) and len(s.targets) == 1 and isinstance(s.targets[0], ast.Name) \
                and isinstance(s.value, ast.Attribute) and s.value.attr == field \
                and SETTINGS in ctx.ti.type_of(s.value.value, g):
            saved[s.targets[0].id] = s
    if not saved:
        return False
    restores = [s for s in iter_own_stmts(g.node.body) if isinstance(s, ast.Assign) and isinstance(s.targets[0], ast.Attribute)
                and s.targets[0].attr == field and isinstance(s.value, ast.Name) and s.value.id in saved]
    if not restores:
        return False
    cfg = _cfg_with_effects(ctx, ef, g)
    cid = cfg.node_of_expr(g.node, call_node)
    if cid is None:
        return False
    rids = set()
    for r in restores:
        rids |= set(cfg.nodes_of(r))
    starts = {n for n, _ in cfg.succ[cid]}
    if cfg.path_avoiding(starts, {cfg.exit.id, cfg.raise_.id}, rids) is not None:
        return False
    # the save happens before the call
    return any(cfg.dominates(sv, cfg.nodes[cid].stmt) for sv in saved.values())


def _covered_by_callers(ctx, ef, f, field, depth):
    if depth > 3:
        return None
    cg = ctx.cg
    callers = cg.callers.get(f.key, set())
    if not callers:
        return None
    names = []
    for ck in sorted(callers):
        g = ctx.ix.funcs[ck]
        for s in cg.sites[ck]:
            if f in s.callees and isinstance(s.node, ast.Call):
                if _restores_around(ctx, ef, g, s.node, field):
                    names.append(g.qual)
                    continue
                up = _covered_by_callers(ctx, ef, g, field, depth + 1)
                if not up:
                    return None
                names += up
    return sorted(set(names))


def _normalize_exemption(ctx, f, node, field):
    """settings.NORMALIZE = True in Locale._get_split_dictionary: harmless iff only ever reached with the default
    Settings (all callers of the detector's _best_language pass no settings=) and the default literal is True"""
    if not (f.key == "dateparser.languages.locale:Locale._get_split_dictionary" and field == "NORMALIZE"
            and isinstance(node, ast.Assign) and isinstance(node.value, ast.Constant) and node.value.value is True):
        return None
    default = module_literal(ctx.repo, "dateparser_data/settings.py", "settings").get("NORMALIZE")
    if default is not True:
        return None
    cg = ctx.cg
    # every call chain reaching the store starts at FullTextLanguageDetector._best_language called without settings=
    target = f.key
    bl = "dateparser.search.text_detection:FullTextLanguageDetector._best_language"
    # callers of _get_split_dictionary, transitively, until _best_language; anything else reaching it breaks the exemption
    seen, work = set(), [target]
    while work:
        k = work.pop()
        if k in seen:
            continue
        seen.add(k)
        if k == bl:
            continue
        callers = cg.callers.get(k, set())
        if not callers:
            return None
        work.extend(callers)
    for ck in cg.callers.get(bl, ()):
        for s in cg.sites[ck]:
            if any(c.key == bl for c in s.callees) and isinstance(s.node, ast.Call):
                if any(k.arg == "settings" for k in s.node.keywords) or len(s.node.args) > 1:
                    return None
    return ("only reached from _best_language invoked without settings=, i.e. on the default Settings whose "
            "NORMALIZE literal is already True")


# ---------------------------------------------------------------------------
def r3(ctx, chk):
    rule = "C03.R3"
    ix = ctx.ix
    D = ix.cls("dateparser.languages.dictionary:Dictionary")
    caches = [a for a, v in D.attrs.items() if a.endswith("_cache") and isinstance(v, ast.Dict)]
    chk.floor(rule, len(caches), 5, "class-level caches of Dictionary")

    def is_source(e, f):
        return isinstance(e, ast.Attribute) and e.attr in caches

    t = Taint(ctx, is_source, through_subscript=True)
    writer = "dateparser.languages.dictionary:Dictionary._add_to_cache"
    ix.func(writer)
    sinks = t.mutation_sinks()
    for f, node, what in sinks:
        chk.ob(rule + "a", "%s: %s" % (f.key, what), f.key == writer,
               "a cache is written outside _add_to_cache (bypasses key discipline and size limit)",
               key={"function": f.key, "construct": "cache write: " + " ".join(ast.unparse(node).split())[:80]},
               file=f.file, function=f.qual, line=node.lineno)
    chk.floor(rule + "a", len(sinks), 2, "cache mutations")
    # (b) keys
    KEY1, KEY2 = "self._settings.registry_key", "self.info['name']"
    nkeys = 0
    from ..core.ctx import inline_simple_helpers
    for f in D.methods.values():
        # accessor / predicate helpers of one expression (`self._is_cached(self._x_cache)`) are read as the expression they return
        for n in iter_own_nodes(inline_simple_helpers(ix, f)):
            if isinstance(n, ast.Subscript) and isinstance(n.value, ast.Attribute) and n.value.attr in caches:
                nkeys += 1
                chk.ob(rule + "b", "%s: %s first key is the settings hash" % (f.qual, ast.unparse(n)[:70]),
                       ast.unparse(n.slice) == KEY1, "cache indexed by %s" % ast.unparse(n.slice),
                       key={"function": f.key, "construct": "key1 of " + n.value.attr}, file=f.file, function=f.qual, line=n.lineno)
            if isinstance(n, ast.Subscript) and isinstance(n.value, ast.Subscript) and isinstance(n.value.value, ast.Attribute) \
                    and n.value.value.attr in caches:
                nkeys += 1
                chk.ob(rule + "b", "%s: %s second key is the locale name" % (f.qual, ast.unparse(n)[:70]),
                       ast.unparse(n.slice) == KEY2, "inner key is %s" % ast.unparse(n.slice),
                       key={"function": f.key, "construct": "key2 of " + n.value.value.attr}, file=f.file, function=f.qual, line=n.lineno)
            if isinstance(n, ast.Compare) and isinstance(n.ops[0], (ast.In, ast.NotIn)):
                c = n.comparators[0]
                if isinstance(c, ast.Attribute) and c.attr in caches:
                    nkeys += 1
                    chk.ob(rule + "b", "%s: membership in %s tested with the settings hash" % (f.qual, c.attr),
                           ast.unparse(n.left) == KEY1, "tested with %s" % ast.unparse(n.left),
                           key={"function": f.key, "construct": "in-test key1 of " + c.attr}, file=f.file, function=f.qual, line=n.lineno)
                if isinstance(c, ast.Subscript) and isinstance(c.value, ast.Attribute) and c.value.attr in caches:
                    nkeys += 1
                    chk.ob(rule + "b", "%s: membership in %s[...] tested with the locale name" % (f.qual, c.value.attr),
                           ast.unparse(n.left) == KEY2 and ast.unparse(c.slice) == KEY1, "tested with %s" % ast.unparse(n.left),
                           key={"function": f.key, "construct": "in-test key2 of " + c.value.attr}, file=f.file, function=f.qual, line=n.lineno)
    chk.floor(rule + "b", nkeys, 15, "cache key expressions")
    w = ix.func(writer)
    wt = " ".join(ast.unparse(w.node).split())
    import re as _re
    ok = _re.search(r"(\w+)\.setdefault\(self\._settings\.registry_key, \{\}\)\[self\.info\['name'\]\] = (\w+)", wt) is not None
    chk.ob(rule + "b", "_add_to_cache stores under (settings hash, locale name)", ok, "",
           key={"function": writer, "construct": "store keys"}, file=w.file, function=w.qual, line=w.node.lineno)
    # locale names are globally distinct
    ld = ctx.memo("langdata", lambda: LangData(ctx.repo))
    names = {}
    for lang, loc in ld.all_locales():
        nm = ld.locale_info(lang, loc).get("name")
        names.setdefault(nm, []).append(loc)
    dup = {k: v for k, v in names.items() if len(v) > 1 or k is None}
    chk.ob(rule + "b", "info['name'] is distinct for all %d locales" % sum(len(v) for v in names.values()), not dup,
           "locales sharing a cache slot: %s" % dict(list(dup.items())[:3]),
           key={"construct": "distinct locale names"}, file="dateparser/data/date_translation_data", function="name", line=None)
    # ... and the name the caches are keyed by IS that distinct locale name: the Dictionary keeps the info it is given, and it is given
    # the Locale's own merged info
    for ck in ("dateparser.languages.dictionary:Dictionary", "dateparser.languages.dictionary:NormalizedDictionary"):
        init = ix.func(ck + ".__init__")
        ps = init.params()
        stores = [n for n in iter_own_nodes(init.node) if isinstance(n, ast.Assign) and ast.unparse(n.targets[0]) == "self.info"]
        if ck.endswith(":Dictionary"):
            gi = CFG(init.node)
            okd = len(stores) == 1 and isinstance(stores[0].value, ast.Name) and stores[0].value.id == ps[1] \
                and gi.reaching_defs(ps[1]).get(next(iter(gi.nodes_of(stores[0])), None), set()) <= {gi.entry.id}
            chk.ob(rule + "b", "Dictionary.__init__ keeps the locale info it is given (self.info = %s)" % ps[1], okd,
                   "self.info = %s: the caches are keyed by self.info['name'], so a rewritten or shortened name makes several locales share "
                   "one cache slot (whichever was compiled first serves the others)" % (ast.unparse(stores[0].value)[:70] if stores else None),
                   key={"function": init.key, "construct": "info kept as given"}, file=init.file, function=init.qual,
                   line=stores[0].lineno if stores else init.node.lineno)
        else:
            chk.ob(rule + "b", "NormalizedDictionary does not rebind self.info", not stores, "", key={"function": init.key, "construct": "info kept as given"},
                   file=init.file, function=init.qual, line=init.node.lineno)
    for gk in ("dateparser.languages.locale:Locale._generate_dictionary", "dateparser.languages.locale:Locale._generate_normalized_dictionary"):
        gf = ix.func(gk)
        calls = [n for n in iter_own_nodes(gf.node) if isinstance(n, ast.Call) and ast.unparse(n.func).endswith("Dictionary")]
        okc = len(calls) == 1 and bool(calls[0].args) and ast.unparse(calls[0].args[0]) == "self.info"
        chk.ob(rule + "b", "%s builds the dictionary from the locale's own info" % gf.qual, okc, "", key={"function": gk, "construct": "dictionary from self.info"},
               file=gf.file, function=gf.qual, line=gf.node.lineno)
    # (c) eviction spares the key just written
    pops = [n for n in iter_own_nodes(w.node) if isinstance(n, ast.Call) and isinstance(n.func, ast.Attribute)
            and n.func.attr in ("pop", "popitem") and ast.unparse(n.func.value) == "cache"] + \
           [n for n in iter_own_nodes(w.node) if isinstance(n, ast.Delete)]
    from ..core.ctx import conjuncts, enclosing_tests
    for p in pops:
        sparing = False
        for test, pol in enclosing_tests(w.node, p):
            for a, pp in conjuncts(test, pol):
                if isinstance(a, ast.Compare) and len(a.ops) == 1 and "registry_key" in ast.unparse(a) and (
                        (pp and isinstance(a.ops[0], ast.NotEq)) or (not pp and isinstance(a.ops[0], ast.Eq))):
                    sparing = True
        # or the victim is chosen by a comprehension/generator that filters out the current key
        if not sparing and isinstance(p, ast.Call) and p.args:
            for n in ast.walk(p.args[0]):
                if isinstance(n, (ast.GeneratorExp, ast.ListComp)):
                    for gen in n.generators:
                        for cond in gen.ifs:
                            if "registry_key" in ast.unparse(cond) and isinstance(cond, ast.Compare) and isinstance(cond.ops[0], ast.NotEq):
                                sparing = True
        # or eviction happens before the insert
        store = [s for s in iter_own_stmts(w.node.body) if isinstance(s, ast.Assign) and "setdefault" in ast.unparse(s)]
        if not sparing and store:
            g = CFG(w.node)
            pst = None
            for s in iter_own_stmts(w.node.body):
                if any(x is p for x in ast.walk(s)) and not isinstance(s, (ast.If, ast.For, ast.While, ast.Try, ast.With)):
                    pst = s
            if pst is not None:
                after = any(g.reachable_from([x]) & set(g.nodes_of(pst)) for x in g.nodes_of(store[0]))
                sparing = not after
        chk.ob(rule + "c", "_add_to_cache: the eviction `%s` cannot remove the entry just written" % ast.unparse(p)[:50], sparing,
               "the evicted key is the oldest one, which is the current settings key whenever that key already existed: "
               "the reader then fails with KeyError on cache[key][name]",
               key={"function": writer, "construct": "key-sparing eviction"}, file=w.file, function=w.qual, line=p.lineno)
    # readers return through the cache only after the build call
    registry_key_rule(ctx, chk, rule + "d")
    rp = ix.func("dateparser.conf:Settings.replace")
    t_ = " ".join(ast.unparse(rp.node).split())
    import re as _re
    m_ = _re.search(r"for (\w+) in self\._get_settings_from_pyfile\(\)(?:\.keys\(\))?: (\w+)\.setdefault\(\1, getattr\(self, \1\)\)", t_)
    if not m_ and "_get_settings_from_pyfile" in t_:
        chk.error(rule + "d", "Settings.replace: the defaults are merged in a form this rule cannot read")
        return
    ok = False
    if m_:
        # the completed dict is what the new Settings is built from: return <this class>(settings=<dict>), the class possibly via a local
        for r_ in [n for n in iter_own_nodes(rp.node) if isinstance(n, ast.Return) and isinstance(n.value, ast.Call)]:
            fn_ = r_.value.func
            if isinstance(fn_, ast.Name):
                ds_ = [n.value for n in iter_own_nodes(rp.node) if isinstance(n, ast.Assign) and len(n.targets) == 1
                       and isinstance(n.targets[0], ast.Name) and n.targets[0].id == fn_.id]
                fn_ = ds_[0] if len(ds_) == 1 else fn_
            kw_ = {k.arg: ast.unparse(k.value) for k in r_.value.keywords}
            if ast.unparse(fn_) in ("self.__class__", "type(self)", "Settings") and kw_.get("settings") == m_.group(2) and not r_.value.args:
                ok = True
    chk.ob(rule + "d", "replace() completes the dict with every default key before it is hashed", ok,
           "partial dicts would hash differently from equal complete ones (or equal for different effective settings)",
           key={"function": rp.key, "construct": "replace fills defaults"}, file=rp.file, function=rp.qual, line=rp.node.lineno)


# ---------------------------------------------------------------------------
def registry_key_rule(ctx, chk, rule):
    """Settings.get_key folds every key together with its value into an order-independent digest (shared with C20)"""
    ix = ctx.ix
    gk = ix.func("dateparser.conf:Settings.get_key")
    comps = [n for n in iter_own_nodes(gk.node) if isinstance(n, (ast.ListComp, ast.GeneratorExp))]
    ok = False
    for c in comps:
        g0 = c.generators[0]
        if len(c.generators) == 1 and not g0.ifs and isinstance(g0.iter, ast.Name) and g0.iter.id in gk.params() \
                and isinstance(g0.target, ast.Name):
            k = g0.target.id
            elt = ast.unparse(c.elt)
            if k in {x.id for x in ast.walk(c.elt) if isinstance(x, ast.Name)} and "%s[%s]" % (g0.iter.id, k) in elt:
                ok = True
    chk.ob(rule, "Settings.get_key digests every key together with its value (no filter)", ok,
           "two settings dicts that differ in an ignored key/value share one cached Settings object and one cache slot",
           key={"function": gk.key, "construct": "hash covers all keys"}, file=gk.file, function=gk.qual, line=gk.node.lineno)
    ok = any(isinstance(n, ast.Call) and ast.unparse(n.func) in ("hashlib.md5", "hashlib.sha1", "hashlib.sha256", "hash")
             for n in iter_own_nodes(gk.node)) and any(isinstance(n, ast.Call) and ast.unparse(n.func) == "sorted" for n in iter_own_nodes(gk.node))
    chk.ob(rule, "the digest is order-independent (sorted) and a cryptographic hash of all items", ok, "",
           key={"function": gk.key, "construct": "sorted + digest"}, file=gk.file, function=gk.qual, line=gk.node.lineno)


def r4(ctx, chk):
    rule = "C03.R4"
    ti = ctx.ti
    reach = ctx.cg.reachable(list(ENTRY_PARAMS) + ["dateparser.calendars:CalendarBase.get_date"])
    n = 0
    for fk in sorted(reach):
        f = ctx.ix.funcs[fk]
        if isinstance(f.node, ast.Lambda):
            continue

        def is_set(e):
            ts = ti.type_of(e, f)
            return bool(ts) and "X:set" in ts and not (ts & {"X:list", "X:dict"})
        for node in iter_own_nodes(f.node):
            # "sep".join(<set>) / join(map(.., <set>))
            if isinstance(node, ast.Call) and isinstance(node.func, ast.Attribute) and node.func.attr == "join" and node.args:
                a = node.args[0]
                inner = a
                if isinstance(a, ast.Call) and isinstance(a.func, ast.Name) and a.func.id in ("map", "filter") and len(a.args) == 2:
                    inner = a.args[1]
                if isinstance(inner, (ast.GeneratorExp, ast.ListComp)):
                    inner = inner.generators[0].iter
                if isinstance(inner, ast.Call) and isinstance(inner.func, ast.Name) and inner.func.id == "sorted" \
                        and inner.args and is_set(inner.args[0]):
                    n += 1
                    chk.ob(rule, "%s: join over sorted(<set %s>)" % (f.qual, ast.unparse(inner.args[0])[:40]), True,
                           "order fixed by sorted()")
                    continue
                if is_set(inner):
                    n += 1
                    chk.ob(rule, "%s: join over the set `%s`" % (f.qual, ast.unparse(inner)), False,
                           "the text depends on set iteration order, i.e. on PYTHONHASHSEED when it has 2+ elements",
                           key={"function": fk, "construct": "join over set " + ast.unparse(inner)[:60]}, file=f.file,
                           function=f.qual, line=node.lineno, text=ast.unparse(node)[:120])
            # list(<set>)[i], next(iter(<set>))
            if isinstance(node, ast.Subscript) and isinstance(node.value, ast.Call) and isinstance(node.value.func, ast.Name) \
                    and node.value.func.id in ("list", "tuple") and node.value.args and is_set(node.value.args[0]):
                n += 1
                chk.ob(rule, "%s: indexing list(<set>)" % f.qual, False, "element choice depends on hash order",
                       key={"function": fk, "construct": "list(set)[i]"}, file=f.file, function=f.qual, line=node.lineno)
            # for x in <set>: ... return/break with a value that mentions x
            if isinstance(node, ast.For) and is_set(node.iter):
                n += 1
                lv = {x.id for x in ast.walk(node.target) if isinstance(x, ast.Name)}
                dep = False
                for s in ast.walk(node):
                    if isinstance(s, ast.Return) and s.value is not None and lv & {x.id for x in ast.walk(s.value) if isinstance(x, ast.Name)}:
                        dep = True
                    if isinstance(s, (ast.Assign,)) and any(isinstance(y, ast.Break) for y in ast.walk(node)) and \
                            lv & {x.id for x in ast.walk(s.value) if isinstance(x, ast.Name)} and \
                            not isinstance(s.targets[0], ast.Subscript):
                        dep = True
                chk.ob(rule, "%s: loop over the set `%s` is order-insensitive" % (f.qual, ast.unparse(node.iter)[:50]), not dep,
                       "the loop leaves early with a value that depends on which element came first",
                       key={"function": fk, "construct": "early exit from loop over set " + ast.unparse(node.iter)[:40]},
                       file=f.file, function=f.qual, line=node.lineno)
    chk.floor(rule, n, 3, "uses of set-typed values in order-sensitive positions examined")


# ---------------------------------------------------------------------------
def r5(ctx, chk):
    """a value cached for the life of the process on a shared object must not be computed from the first caller's
    settings - unless the code that fills it can only ever run with the default Settings"""
    rule = "C03.R5"
    from ..core.heap import Heap
    from . import c20

    heap = ctx.memo("heap", lambda: Heap(ctx))
    reach = ctx.cg.reachable(c20.ENTRIES)
    n = 0
    for f, node, kind, target, why in heap.writes(reach):
        cat, detail = c20.classify(ctx, heap, f, node, kind, target)
        if cat not in ("lazy-memo", "keyed-memo", "FINDING"):
            continue
        if cat == "FINDING" and detail.startswith("memo on the class-level table"):
            n += 1
            chk.ob(rule, "%s: what is memoised in `%s` is determined by its key" % (f.qual, c20.norm_target(target, ctx, f)), False,
                   detail + ": which instance filled the entry first depends on the calls made before",
                   key={"function": f.key, "target": c20.norm_target(target, ctx, f)}, file=f.file, function=f.qual, line=node.lineno,
                   text=" ".join(ast.unparse(node).split())[:120])
            continue
        if cat == "FINDING" and not detail.startswith("lazily cached"):
            continue
        n += 1
        if cat != "FINDING":
            chk.ob(rule, "%s: cached `%s` does not depend on the call's arguments" % (f.qual, c20.norm_target(target, ctx, f)), True)
            continue
        default_only = _only_default_settings(ctx, f)
        chk.ob(rule, "%s: cached `%s` is independent of the first caller's settings" % (f.qual, c20.norm_target(target, ctx, f)),
               bool(default_only),
               "the value is built once per process from the settings of whichever call came first (%s), so later calls "
               "with other settings see a result that depends on call history" % detail[:120],
               key={"function": f.key, "target": c20.norm_target(target, ctx, f)}, file=f.file, function=f.qual, line=node.lineno,
               text=" ".join(ast.unparse(node).split())[:120])
        if default_only:
            chk.note("%s: %s" % (f.qual, default_only))
    chk.floor(rule, n, 8, "process-lifetime caches on shared objects")


def _only_default_settings(ctx, f):
    """every call chain into f starts at FullTextLanguageDetector._best_language invoked without settings="""
    cg = ctx.cg
    bl = "dateparser.search.text_detection:FullTextLanguageDetector._best_language"
    seen, work = set(), [f.key]
    while work:
        k = work.pop()
        if k in seen:
            continue
        seen.add(k)
        if k == bl:
            continue
        callers = cg.callers.get(k, set())
        if not callers:
            return None
        work.extend(callers)
    for ck in cg.callers.get(bl, ()):
        for s in cg.sites[ck]:
            if any(c.key == bl for c in s.callees) and isinstance(s.node, ast.Call):
                if any(k.arg == "settings" for k in s.node.keywords) or len(s.node.args) > 1:
                    return None
    return "only reachable from _best_language called without settings=, i.e. always with the default Settings"



_COPIERS = {"copy", "deepcopy", "copy.copy", "copy.deepcopy"}


def _copy_of(e, name=None):
    """is expression e a fresh container built from `name` (any name when None): copy(x), deepcopy(x), list(x), dict(x), x.copy(), x[:], type(x)(x)"""
    def is_x(a):
        return name is None or (isinstance(a, ast.Name) and a.id == name) or (name is not None and ast.unparse(a) == name)
    if isinstance(e, ast.Call):
        fn = ast.unparse(e.func)
        if fn in _COPIERS | {"list", "dict", "OrderedDict"} and len(e.args) == 1 and is_x(e.args[0]):
            return "deep" if fn.endswith("deepcopy") else "shallow"
        if isinstance(e.func, ast.Attribute) and e.func.attr == "copy" and not e.args and is_x(e.func.value):
            return "shallow"
        if isinstance(e.func, ast.Call) and ast.unparse(e.func.func) == "type" and len(e.args) == 1 and is_x(e.args[0]):
            return "shallow"
        return None
    if isinstance(e, ast.Subscript) and isinstance(e.slice, ast.Slice) and e.slice.lower is None and e.slice.upper is None and e.slice.step is None and is_x(e.value):
        return "shallow"
    return None


def r10(ctx, chk):
    """A Settings object is shared by every caller whose settings hash to the same key and is re-initialised from the latest caller's dict.
    If its fields ARE that caller's containers (the dict kept as _mod_settings, the PARSERS / SKIP_TOKENS / ... lists), a later change the
    caller makes to its own dict or list silently changes what an unrelated, earlier-built parser returns.  Somewhere on the way
    apply_settings.wrapper -> Settings.replace -> Settings.__init__ -> Settings._updateall the containers must be copied."""
    rule = "C03.R10"
    ix = ctx.ix
    S = "dateparser.conf:Settings"
    upd, rep = ix.func(S + "._updateall"), ix.func(S + ".replace")
    wrap = ix.func("dateparser.conf:apply_settings.<locals>.wrapper")
    # every write of a Settings field from data goes through _updateall's setattr
    other = []
    for f in ix.funcs.values():
        if not f.key.startswith(S + "."):
            continue
        for n in iter_own_nodes(f.node):
            if isinstance(n, ast.Call) and ast.unparse(n.func) in ("setattr", "self.__dict__.update", "object.__setattr__", "vars(self).update") and f is not upd:
                other.append((f, n))
            if isinstance(n, ast.Subscript) and isinstance(n.ctx, ast.Store) and ast.unparse(n.value) in ("self.__dict__", "vars(self)"):
                other.append((f, n))
    if other:
        raise AnalysisError(rule, "Settings fields are also written outside _updateall: %s line %d" % (other[0][0].qual, other[0][1].lineno))
    # step 1: does the wrapper hand replace() deep copies?
    calls = [n for n in iter_own_nodes(wrap.node) if isinstance(n, ast.Call) and isinstance(n.func, ast.Attribute) and n.func.attr == "replace"]
    if len(calls) != 1:
        raise AnalysisError(rule, "apply_settings.wrapper: expected one settings.replace(...) call, found %d" % len(calls))
    c = calls[0]
    gw = CFG(wrap.node)
    atw = gw.node_of_expr(wrap.node, c)

    def deep_here(e):
        if _copy_of(e) == "deep":
            return True
        if isinstance(e, ast.Name):
            rd = gw.reaching_defs(e.id).get(atw, set())
            return bool(rd) and gw.entry.id not in rd and all(
                isinstance(gw.nodes[d].stmt, ast.Assign) and _copy_of(gw.nodes[d].stmt.value) == "deep" for d in rd)
        return False
    star = [k.value for k in c.keywords if k.arg is None]
    mod = [k.value for k in c.keywords if k.arg == "mod_settings"]
    deep_values = bool(star) and all(deep_here(x) for x in star)
    deep_mod = bool(mod) and all(deep_here(x) or _copy_of(x) for x in mod)
    # step 2: replace() stores mod_settings under "_mod_settings"
    st = [s for s in iter_own_stmts(rep.node.body) if isinstance(s, ast.Assign) and isinstance(s.targets[0], ast.Subscript)
          and isinstance(s.targets[0].slice, ast.Constant) and s.targets[0].slice.value == "_mod_settings"]
    chk.floor(rule + ".mod", len(st), 1, "stores of the caller's dict as _mod_settings in Settings.replace")
    rep_copy = bool(st) and all(_copy_of(s.value, "mod_settings") for s in st)
    # step 3: _updateall
    g = CFG(upd.node)
    sets = [n for n in iter_own_nodes(upd.node) if isinstance(n, ast.Call) and ast.unparse(n.func) == "setattr"]
    if len(sets) != 1 or len(sets[0].args) != 3:
        raise AnalysisError(rule, "Settings._updateall: expected one setattr(self, key, value)")
    sa_ = sets[0]
    v = sa_.args[2]
    covered = set()

    def _types_of(t):
        """the container kinds an isinstance(<x>, types) test (or a local bound once to one) selects, with <x>; else (None, None)"""
        if isinstance(t, ast.Name):
            ds = [n.value for n in iter_own_nodes(upd.node) if isinstance(n, ast.Assign) and len(n.targets) == 1 and isinstance(n.targets[0], ast.Name)
                  and n.targets[0].id == t.id]
            t = ds[0] if len(ds) == 1 else t
        if not (isinstance(t, ast.Call) and ast.unparse(t.func) == "isinstance" and len(t.args) == 2):
            return None, None
        tys = t.args[1].elts if isinstance(t.args[1], ast.Tuple) else [t.args[1]]
        names = {ast.unparse(x).split(".")[-1] for x in tys}
        kinds = set()
        if names & {"list", "MutableSequence", "Sequence"}:
            kinds.add("list")
        if names & {"dict", "Mapping", "MutableMapping"}:
            kinds.add("dict")
        return ast.unparse(t.args[0]), kinds
    if _copy_of(v):
        covered = {"list", "dict"}
    elif isinstance(v, ast.IfExp) and isinstance(v.orelse, ast.Name):
        # setattr(self, key, copy(value) if <value is a container> else value)
        subj, kinds = _types_of(v.test)
        if subj == v.orelse.id and _copy_of(v.body, v.orelse.id):
            covered = set(kinds)
    elif isinstance(v, ast.Name):
        from ..core.ctx import enclosing_tests
        set_stmt = _stmt_of(upd.node, sa_)
        for n in iter_own_nodes(upd.node):
            if not (isinstance(n, ast.Assign) and len(n.targets) == 1 and isinstance(n.targets[0], ast.Name)
                    and n.targets[0].id == v.id and _copy_of(n.value, v.id)):
                continue
            et = list(enclosing_tests(upd.node, n))
            if not et:
                if g.dominates(n, set_stmt):
                    covered |= {"list", "dict"}         # unconditional copy before the store
                continue
            if len(et) != 1:
                continue
            t, pol = et[0]
            # `if isinstance(value, (list, dict)): value = copy(value)` ahead of the store
            if not (pol and isinstance(t, ast.Call) and ast.unparse(t.func) == "isinstance" and len(t.args) == 2 and ast.unparse(t.args[0]) == v.id):
                continue
            ifs = [x for x in iter_own_nodes(upd.node) if isinstance(x, ast.If) and x.test is t]
            if not ifs or n not in ifs[0].body or not g.dominates(ifs[0], set_stmt):
                continue
            tys = t.args[1].elts if isinstance(t.args[1], ast.Tuple) else [t.args[1]]
            names = {ast.unparse(x).split(".")[-1] for x in tys}
            if names & {"list", "MutableSequence", "Sequence"}:
                covered.add("list")
            if names & {"dict", "Mapping", "MutableMapping"}:
                covered.add("dict")
    ok1 = deep_mod or rep_copy or "dict" in covered
    ok2 = deep_values or "list" in covered
    chk.ob(rule, "the dict a caller passes as settings= is not itself kept as Settings._mod_settings (read again by later calls of other parsers)", ok1,
           "wrapper passes mod_settings=%s, replace stores %s, _updateall copies %s: the shared instance keeps the caller's dict; a key the caller adds "
           "later (e.g. DATE_ORDER) changes what an earlier-built parser with equal settings returns" % (
               ast.unparse(mod[0]) if mod else None, ast.unparse(st[0].value) if st else None, sorted(covered) or "nothing"),
           key={"function": upd.key, "construct": "caller dict aliased as _mod_settings"}, file=upd.file, function=upd.qual, line=sa_.lineno,
           text=" ".join(ast.unparse(sa_).split()))
    chk.ob(rule, "list-valued settings (PARSERS, SKIP_TOKENS, DEFAULT_LANGUAGES, REQUIRE_PARTS) stored on the shared Settings object are not the caller's lists", ok2,
           "_updateall stores `%s` as given (copies %s): appending to a list passed to one call changes the PARSERS/SKIP_TOKENS of every parser "
           "sharing the settings hash" % (ast.unparse(v), sorted(covered) or "nothing"),
           key={"function": upd.key, "construct": "caller lists aliased as fields"}, file=upd.file, function=upd.qual, line=sa_.lineno,
           text=" ".join(ast.unparse(sa_).split()))


def _stmt_of(fn, expr):
    for s in iter_own_stmts(fn.body):
        if not isinstance(s, (ast.If, ast.For, ast.While, ast.Try, ast.With)) and any(x is expr for x in ast.walk(s)):
            return s
    raise AnalysisError("C03.R10", "statement of expression not found")



def r12(ctx, chk):
    """a memoising decorator (functools.lru_cache / cache) turns a function into a process-wide table keyed by its ARGUMENTS: everything
    else the body reads - a module-level object such as the global settings, attributes reached through it - is frozen into the cached
    result at the first call and served to later calls made under other settings"""
    rule = "C03.R12"
    import builtins
    n = 0
    for f in list(ctx.ix.funcs.values()):
        if not f.module.rel.startswith("dateparser/") or f.module.rel.startswith("dateparser/data/") or not isinstance(f.node, ast.FunctionDef):
            continue
        decs = [d.split("(")[0].split(".")[-1] for d in f.decorators()]
        if not any(d in ("lru_cache", "cache") for d in decs):
            continue
        n += 1
        params = set(f.params())
        local = {x.id for x in ast.walk(f.node) if isinstance(x, ast.Name) and isinstance(x.ctx, (ast.Store, ast.Del))}
        outside = []
        for x in iter_own_nodes(f.node):
            if isinstance(x, ast.Name) and isinstance(x.ctx, ast.Load) and x.id not in params and x.id not in local and not hasattr(builtins, x.id):
                ent = ctx.ix.lookup_module_attr(f.module, x.id)
                # functions, classes and modules are fixed; a module-level VARIABLE (an object that can change, like `settings`) is not
                if isinstance(ent, tuple) and ent[0] == "var":
                    outside.append(x.id)
        chk.ob(rule, "%s: a memoised function depends on its arguments only" % f.qual, not outside,
               "@%s caches by the arguments, but the body also reads the module-level object(s) %s: the first call's state of them is baked into "
               "every later result for equal arguments" % ([d for d in decs if d in ("lru_cache", "cache")][0], sorted(set(outside))),
               key={"function": f.key, "construct": "memoised function reads " + ",".join(sorted(set(outside)))[:60]}, file=f.file, function=f.qual,
               line=f.node.lineno, positive=True)
    chk.ob(rule, "%d memoising decorator(s) in the library examined" % n, True)

"""C05 — every locale's month and weekday names resolve to their meaning (vocabulary reachability).

For every locale and every month/weekday name w that the vocabulary lists with a single meaning k:
  S-A  after sanitize -> numerals -> normalize -> simplify, the probe string still contains a dictionary key of
       meaning k (otherwise no translation can yield k: erased / rewritten / unreachable key)
  S-B  the rewritten name, if it is a dictionary key, maps to k (otherwise it is overridden by a hard-coded token or
       lost in the normalisation conflict policy)
  S-C  no counted relative pattern of the locale matches a proper part of the name (it would be split before lookup)
plus code rules protecting the model's assumptions:
  R5 vocabulary alternations are built longest-first            R6 numeral translation precedes all vocabulary work
"""
import ast
import os
from concurrent.futures import ProcessPoolExecutor

import regex

from ..core.data import LangData, MONTHS, WEEKDAYS
from ..core.index import iter_own_nodes
from ..core.repo import AnalysisError, Repo
from .vocab import LocaleModel, extracted, normalize_unicode

LEVEL = "other"
EXPLANATION = (
    "Dead-entry analysis of the 504 locale vocabularies against the rewriting that precedes dictionary lookup. The "
    "rewriting (sanitize regexes and their order, numeral translation, NFKD-minus-Mn normalisation, the simplification "
    "wrapper template and no_word_spacing switch, the order of dictionary.update calls, the normalised dictionary's "
    "conflict policy, the relative-pattern split regex) is extracted from the code each run and conformance-checked; "
    "table patterns are compiled with `regex` and applied to table strings only. For each single-meaning month/weekday "
    "name the probe 'D name YYYY' (resp. the name alone) must still contain a key of that meaning after rewriting, the "
    "rewritten name must not be shadowed, and no counted pattern may tear it apart. Entries flagged on today's tree "
    "were each confirmed against the real parser and are listed as known findings (data decisions). Does not decide "
    "tokenisation of multi-word names nor the weekday date arithmetic."
)
NAMES = MONTHS + WEEKDAYS


def relative_split_regex(model, normalize):
    """model of Dictionary._construct_split_relative_regex (template conformance-checked in check_templates)"""
    rel = [s for v in model.info.get("relative-type-regex", {}).values() for s in v]
    if normalize:
        rel = [normalize_unicode(x) for x in rel]
    strs = sorted([regex.sub(r"[\(\)]", "", k) for k in rel], key=len, reverse=True)
    if not strs and model.ex.relsplit_guarded:
        return None
    body = "|".join(strs)      # empty when the locale has no counted pattern and the code does not guard the split
    pat = "({})".format(body) if model.no_word_spacing else "(?<=(?:\\A|\\W|_))({})(?=(?:\\Z|\\W|_))".format(body)
    try:
        return regex.compile(pat, regex.U | regex.I)
    except regex.error as e:
        raise AnalysisError("C05.model", "%s: relative split regex does not compile: %s" % (model.locale, e))


def check_templates(ctx):
    f = ctx.ix.func("dateparser.languages.dictionary:Dictionary._construct_split_relative_regex")
    lits = {n.value for n in ast.walk(f.node) if isinstance(n, ast.Constant) and isinstance(n.value, str)}
    if not {"({})", "(?<=(?:\\A|\\W|_))({})(?=(?:\\Z|\\W|_))", "|"} <= lits:
        raise AnalysisError("C05.model", "_construct_split_relative_regex templates changed: %s" % sorted(lits))
    s = ctx.ix.func("dateparser.languages.dictionary:Dictionary.split")
    t = " ".join(ast.unparse(s.node).split())
    import re as _re
    m1 = _re.search(r"(\w+) = self\._get_split_relative_regex_cache\(\)", t)
    i1 = t.find("%s.split(string)" % m1.group(1)) if m1 else -1
    m2 = _re.search(r"self\._split_by_known_words\((\w+), keep_formatting\)", t)
    i2 = m2.start() if m2 else -1
    if -1 in (i1, i2) or i1 > i2:
        raise AnalysisError("C05.model", "Dictionary.split no longer splits by relative patterns before known words")
    p = ctx.ix.module_const("dateparser.languages.dictionary", "PARENTHESES_PATTERN")
    lits = [c.value for c in ast.walk(p) if isinstance(c, ast.Constant) and isinstance(c.value, str)]
    if lits != [r"[\(\)]"]:
        raise AnalysisError("C05.model", "PARENTHESES_PATTERN changed: %s" % lits)


_CTX_CACHE = {}


def analyse_locale(args):
    root, overlay, lang, locale, modes = args
    from ..core.context import Ctx
    key = (root, tuple(sorted((k, hash(v)) for k, v in (overlay or {}).items())))
    ctx = _CTX_CACHE.get(key)
    if ctx is None:
        _CTX_CACHE.clear()
        ctx = _CTX_CACHE[key] = Ctx(Repo(root, overlay))
    out = []
    try:
        m = LocaleModel(ctx, lang, locale)
        meanings = m.meanings(NAMES)
        for normalize in modes:
            d = m.dictionary(normalize)
            keys_by_meaning = {}
            for k, v in d.items():
                if v in NAMES:
                    keys_by_meaning.setdefault(v, []).append(k)
            split_rx = relative_split_regex(m, normalize)
            for k in NAMES:
                for w in m.info.get(k, []) if k in m.info else []:
                    lw = w.lower()
                    if meanings.get(lw, set()) != {k}:
                        out.append((locale, normalize, k, w, "skip", "listed with %d meanings" % len(meanings.get(lw, ()))))
                        continue
                    probe = ("5 %s 2015" % w) if k in MONTHS else w
                    s4 = m.rewrite(probe, normalize)
                    t = m.rewrite(w, normalize).strip()
                    ks = keys_by_meaning.get(k, [])
                    if any(c.isdigit() for c in w):
                        # a name that carries a numeral may still be read through the numeric route
                        # (dz 'month-5' parses as May because the 5 is taken as the month): not decided
                        out.append((locale, normalize, k, w, "skip", "rewritten name contains a numeral"))
                        continue
                    if not any(key in s4 for key in ks):
                        why = "rewritten to %r: no key meaning %s survives" % (s4, k)
                        if any(unicodedata_is_digit(c) for c in w):
                            why += " (the name contains a non-ASCII decimal digit, which numeral translation rewrites)"
                        out.append((locale, normalize, k, w, "S-A", why))
                    elif t in d and d[t] != k:
                        out.append((locale, normalize, k, w, "S-B", "the rewritten name %r is a key meaning %r" % (t, d[t])))
                    elif t in m.ex.default_skip_tokens:
                        out.append((locale, normalize, k, w, "S-D", "the rewritten name %r is one of the default SKIP_TOKENS %r: the dictionary drops it "
                                    "before the locale's vocabulary is asked" % (t, m.ex.default_skip_tokens)))
                    elif split_rx is not None:
                        mm = split_rx.search(t)
                        torn = next((x for x in split_rx.finditer(t) if not x.group(0) and 0 < x.start() < len(t)), None)
                        if mm and mm.span() != (0, len(t)) and mm.group(0):
                            out.append((locale, normalize, k, w, "S-C", "counted pattern matches the part %r of %r" % (mm.group(0), t)))
                        elif torn is not None:
                            out.append((locale, normalize, k, w, "S-C", "the (empty) relative split expression tears %r apart at position %d" % (t, torn.start())))
                        else:
                            out.append((locale, normalize, k, w, "ok", ""))
                    else:
                        out.append((locale, normalize, k, w, "ok", ""))
    except AnalysisError as e:
        return [(locale, None, None, None, "error", "%s: %s" % (e.rule, e.reason))]
    return out


def unicodedata_is_digit(c):
    import unicodedata
    return unicodedata.category(c) == "Nd" and not c.isascii()


def sweep(ctx, chk, rule, modes, locales=None):
    ld = ctx.memo("langdata", lambda: LangData(ctx.repo))
    extracted(ctx)  # conformance of the model first (raises AnalysisError)
    check_templates(ctx)
    todo = [(ctx.repo.root, ctx.repo.overlay, lang, loc, modes) for lang, loc in ld.all_locales()
            if locales is None or loc in locales]
    jobs = int(os.environ.get("VERIF_JOBS", "16"))
    results = []
    if len(todo) > 8 and jobs > 1:
        with ProcessPoolExecutor(max_workers=jobs) as ex:
            for r in ex.map(analyse_locale, todo, chunksize=8):
                results.extend(r)
    else:
        for a in todo:
            results.extend(analyse_locale(a))
    n_names = 0
    for locale, normalize, k, w, verdict, why in results:
        if verdict == "error":
            chk.error(rule, why)
            continue
        if verdict == "skip":
            chk.instances[rule + ".multi-meaning"] = chk.instances.get(rule + ".multi-meaning", 0) + 1
            continue
        n_names += 1
        lang = locale.split("-")[0] if locale not in ld.languages() else locale
        for l in ld.languages():
            if locale == l or locale in ld.locales(l):
                lang = l
        ok = verdict == "ok"
        if ok:
            chk.instances[rule] = chk.instances.get(rule, 0) + 1
            chk.obligations.append((rule, "%s %s %r" % (locale, k, w), True, ""))
            chk.nontrivial.add((rule, locale, k, w))
        else:
            chk.ob(rule + "." + verdict, "%s (NORMALIZE=%s): %r listed under %s resolves to it" % (locale, normalize, w, k), False, why,
                   key={"locale": locale, "word": w, "meaning": k, "normalize": normalize, "rule": verdict},
                   file="dateparser/data/date_translation_data/%s.py" % lang, function="info[%r]" % k, line=None)
    return n_names


def run(ctx, chk):
    n = sweep(ctx, chk, "C05", modes=(True, False))
    chk.floor("C05", n, 8000, "single-meaning month/weekday names x NORMALIZE modes examined")
    code_rules(ctx, chk)
    from .c08 import token_conservation_rule
    token_conservation_rule(ctx, chk, "C05.R6")     # 'D <month name> YYYY' under a YMD locale relies on the displaced-token hand-over
    chk.sample({"rule": "C05", "example": "fr: probe '5 sept 2015' is rewritten to '5 7 2015' by the simplification sept->7"})
    chk.assume("translation only maps dictionary keys; an untranslated token makes the locale inapplicable (so S-A is a necessary condition)")


def code_rules(ctx, chk, rule="C05.R5"):
    ix = ctx.ix
    n = 0
    for key in ("dateparser.languages.dictionary:Dictionary._construct_split_regex",
                "dateparser.languages.dictionary:Dictionary._construct_split_relative_regex",
                "dateparser.languages.dictionary:Dictionary._construct_match_relative_regex",
                "dateparser.languages.locale:Locale._generate_relative_translations"):
        f = ix.func(key)
        for j in [c for c in iter_own_nodes(f.node) if isinstance(c, ast.Call) and isinstance(c.func, ast.Attribute) and c.func.attr == "join"
                  and isinstance(c.func.value, ast.Constant) and c.func.value.value == "|"]:
            n += 1
            arg = j.args[0]
            ok = _longest_first(ctx, f, arg)
            if ok is None:
                chk.error(rule, "%s: cannot see where the alternation %s is sorted" % (f.qual, ast.unparse(arg)[:50]))
                continue
            chk.ob(rule, "%s: alternation %s is built longest-first" % (f.qual, ast.unparse(arg)[:50]), ok,
                   "a shorter vocabulary entry that is a prefix of a longer one wins the alternation and splits the longer word",
                   key={"function": key, "construct": "longest-first alternation"}, file=f.file, function=f.qual, line=j.lineno)
    chk.floor(rule, n, 4, "vocabulary alternations")
    # data precondition that makes un-sorting behaviour-breaking: prefix pairs exist
    ld = ctx.memo("langdata", lambda: LangData(ctx.repo))
    en = LocaleModel(ctx, "en", "en").plain_dictionary()
    pref = [(a, b) for a in en for b in en if a != b and b.startswith(a) and a.isalpha()][:3]
    chk.ob(rule, "prefix pairs exist in the vocabulary (e.g. %s), so the order matters" % pref[:2], bool(pref), "",
           key={"function": "data", "construct": "prefix pairs"}, file="dateparser/data/date_translation_data/en.py", function="info", line=None)


def _longest_first(ctx, f, arg, depth=0):
    """the joined sequence comes from sorted(..., key=len, reverse=True), possibly through a getter or map(re.escape, ..):
    True / False (a sort is found and it is another one) / None (no sort found where this rule looks: cannot decide)"""
    if depth > 4:
        return None

    def good(x):
        kw = {k.arg: ast.unparse(k.value) for k in x.keywords}
        return kw.get("key") == "len" and kw.get("reverse") == "True"
    if isinstance(arg, ast.Call):
        fn = ast.unparse(arg.func)
        if fn == "sorted":
            return good(arg)
        if fn == "map" and len(arg.args) == 2:
            return _longest_first(ctx, f, arg.args[1], depth + 1)
        # getter method: every return is the cache read; the value stored is sorted(...) - in the getter or in what it calls to fill the cache
        seen, work = set(), []
        for s in ctx.cg.sites.get(f.key, ()):
            if s.node is arg:
                work += [(c, 0) for c in s.callees]
        srt = []
        while work:
            c, d_ = work.pop()
            if c.key in seen or isinstance(c.node, ast.Lambda):
                continue
            seen.add(c.key)
            here = [n for n in iter_own_nodes(c.node) if isinstance(n, ast.Call) and ast.unparse(n.func) == "sorted"]
            srt += here
            # the value the getter files in the cache is in plain sight and it is not a sort: decided, not unknown
            stored = [k.value for n in iter_own_nodes(c.node) if isinstance(n, ast.Call) and ast.unparse(n.func).endswith("_add_to_cache")
                      for k in n.keywords if k.arg == "value"]
            if stored and not here and all(isinstance(v_, (ast.List, ast.ListComp, ast.Tuple, ast.Call)) and not (
                    isinstance(v_, ast.Call) and not ast.unparse(v_.func) in ("list", "tuple", "set")) for v_ in stored):
                return False
            if not here and d_ < 2:
                for s2 in ctx.cg.sites.get(c.key, ()):
                    work += [(c2, d_ + 1) for c2 in s2.callees if c2.module is c.module]
        if srt:
            return all(good(x) for x in srt)
        return None
    if isinstance(arg, ast.Name):
        defs = [n.value for n in iter_own_nodes(f.node) if isinstance(n, ast.Assign) and any(isinstance(t, ast.Name) and t.id == arg.id for t in n.targets)]
        if not defs:
            return None
        res = [_longest_first(ctx, f, d, depth + 1) for d in defs]
        return False if False in res else None if None in res else True
    return None

"""Model of the rewriting that precedes dictionary lookup, with every parameter extracted
from the code on each run (conformance-checked; a changed shape is exit 2, never a guess):

  sanitize_date -> _translate_numerals -> normalize_unicode (NORMALIZE) -> _simplify -> Dictionary / NormalizedDictionary

Used by C05 (month/weekday names), C06 (relative phrases) and C01.R3 (English identity).
Patterns and tables are *data*: they are compiled with the `regex` package and applied to table strings only.
"""
import ast
import unicodedata

import regex

from ..core.data import LangData, MONTHS, WEEKDAYS, module_literal
from ..core.effects import fold_str
from ..core.index import iter_own_nodes, iter_own_stmts
from ..core.repo import AnalysisError

RULE = "vocab-model"
FLAGS = {"re.I": regex.I, "re.IGNORECASE": regex.I, "re.U": regex.U, "re.UNICODE": regex.U, "re.M": regex.M,
         "re.MULTILINE": regex.M, "re.S": regex.S, "re.DOTALL": regex.S}


def _unroll_literal_loops(root):
    """`for k in ("a", "b"): <body>` with a literal iterable of constants and a plain name target, written out as the bodies with the name
    replaced by each constant (loops with break/continue/else are left alone)"""
    import copy

    class Sub(ast.NodeTransformer):
        def __init__(self, name, const):
            self.name, self.const = name, const

        def visit_Name(self, node):
            if node.id == self.name and isinstance(node.ctx, ast.Load):
                return ast.copy_location(ast.Constant(value=self.const), node)
            return node

    class Unroll(ast.NodeTransformer):
        def visit_For(self, node):
            self.generic_visit(node)
            if not (isinstance(node.iter, (ast.Tuple, ast.List)) and node.iter.elts and all(isinstance(e, ast.Constant) for e in node.iter.elts)
                    and isinstance(node.target, ast.Name) and not node.orelse):
                return node
            if any(isinstance(x, (ast.Break, ast.Continue)) for x in ast.walk(node)) or any(
                    isinstance(x, ast.Name) and x.id == node.target.id and isinstance(x.ctx, ast.Store) for b_ in node.body for x in ast.walk(b_)):
                return node
            out = []
            for e in node.iter.elts:
                for b_ in node.body:
                    out.append(Sub(node.target.id, e.value).visit(copy.deepcopy(b_)))
            return out
    return ast.fix_missing_locations(Unroll().visit(root))


def _flags(txt):
    v = 0
    for part in txt.replace(" ", "").split("|"):
        if not part:
            continue
        if part not in FLAGS:
            raise AnalysisError(RULE, "unknown regex flag %s" % part)
        v |= FLAGS[part]
    return v


class Extracted:
    """code-derived parameters of the model (one per run)"""

    def __init__(self, ctx):
        self.ctx = ctx
        ix = ctx.ix
        self.known_words = self._dict_const("KNOWN_WORD_TOKENS")
        self.always_keep = self._dict_const("ALWAYS_KEEP_TOKENS")
        self.parser_known = self._dict_const("PARSER_KNOWN_TOKENS")
        self.dict_order = self._dictionary_order()
        self._check_normalize_model()
        self._check_normalized_dictionary()
        self.simpl_template, self.simpl_flags = self._simplification_template()
        self.sanitize_ops = self._sanitize_ops()
        self.relsplit_guarded = self._relsplit_guarded()
        self._check_translate_numerals()
        self._check_simplify()
        self.default_skip_tokens = self._default_skip_tokens()

    def _default_skip_tokens(self):
        """the default SKIP_TOKENS, if Dictionary.__getitem__ consults them before the locale's own vocabulary (it answers None - the
        word is dropped - for such a token whatever the vocabulary says)"""
        f = self.ctx.ix.func("dateparser.languages.dictionary:Dictionary.__getitem__")
        first = [n for n in f.node.body if not (isinstance(n, ast.Expr) and isinstance(n.value, ast.Constant))]
        shadow = bool(first) and isinstance(first[0], ast.If) and "SKIP_TOKENS" in ast.unparse(first[0].test) \
            and any(isinstance(x, ast.Return) and (x.value is None or (isinstance(x.value, ast.Constant) and x.value.value is None)) for x in first[0].body)
        if not shadow:
            return []
        dflt = module_literal(self.ctx.repo, "dateparser_data/settings.py", "settings")
        toks = dflt.get("SKIP_TOKENS")
        if not isinstance(toks, list) or not all(isinstance(t, str) for t in toks):
            raise AnalysisError(RULE, "default SKIP_TOKENS is not a list of strings")
        return toks

    def _dict_const(self, name):
        from ..core.data import eval_literal
        m = self.ctx.ix.module("dateparser.languages.dictionary")
        env = {k: v[-1] for k, v in m.assigns.items()}
        node = env.get(name)
        if node is None:
            raise AnalysisError(RULE, "dictionary.%s not found" % name)
        if isinstance(node, ast.BinOp) and isinstance(node.op, ast.Add):
            return eval_literal(node.left, env) + eval_literal(node.right, env)
        return eval_literal(node, env)

    def _dictionary_order(self):
        """the order in which Dictionary.__init__ fills the dict (later wins).  Every `<dict>.update(<pairs>)` is read as (where the keys come
        from, whether they are lower-cased, what each key maps to) - whatever way the pairs are spelled (zip_longest with a fill value,
        dict.fromkeys, a dict / generator comprehension, zip of a list with itself) - and must be one of the six fills the model knows"""
        import copy
        from ..core.ctx import ancestors, conjuncts, enclosing_tests, fresh_copy
        f = self.ctx.ix.func("dateparser.languages.dictionary:Dictionary.__init__")
        root = _unroll_literal_loops(fresh_copy(f.node))
        # the local that ends up in self._dictionary
        dname = None
        for n in iter_own_nodes(root):
            if isinstance(n, ast.Assign) and ast.unparse(n.targets[0]) == "self._dictionary" and isinstance(n.value, ast.Name):
                dname = n.value.id
        if dname is None:
            raise AnalysisError(RULE, "Dictionary.__init__: no `self._dictionary = <local>`")
        rel_names = {n.targets[0].id for n in iter_own_nodes(root) if isinstance(n, ast.Assign) and isinstance(n.targets[0], ast.Name)
                     and "'relative-type'" in ast.unparse(n.value) and "regex" not in ast.unparse(n.value)}
        lower_names = {n.targets[0].id for n in iter_own_nodes(root) if isinstance(n, ast.Assign) and len(n.targets) == 1
                       and isinstance(n.targets[0], ast.Name) and ast.unparse(n.value) in ("methodcaller('lower')", "str.lower")}

        def is_lower_fn(fn):
            return ast.unparse(fn) in ("methodcaller('lower')", "str.lower", "operator.methodcaller('lower')") or (
                isinstance(fn, ast.Name) and fn.id in lower_names)

        def elt_transform(e, var):
            if isinstance(e, ast.Name) and e.id == var:
                return "id"
            if ast.unparse(e) == var + ".lower()" or (isinstance(e, ast.Call) and len(e.args) == 1 and not e.keywords and isinstance(e.args[0], ast.Name)
                                                     and e.args[0].id == var and is_lower_fn(e.func)):
                return "lower"
            return None

        def local_value(name, at):
            """the value last bound to a local before statement `at` in the same block"""
            for parent in ast.walk(root):
                for fld in ("body", "orelse"):
                    blk = getattr(parent, fld, None)
                    if isinstance(blk, list) and at in blk:
                        for st in reversed(blk[:blk.index(at)]):
                            if isinstance(st, ast.Assign) and len(st.targets) == 1 and isinstance(st.targets[0], ast.Name) and st.targets[0].id == name:
                                return st.value
            return None

        def keys(e, at):
            if isinstance(e, ast.Name):
                v = local_value(e.id, at)
                if v is not None:
                    return keys(v, at)
            if isinstance(e, ast.Call) and ast.unparse(e.func) == "map" and len(e.args) == 2 and is_lower_fn(e.args[0]):
                return "lower", ast.unparse(e.args[1])
            if isinstance(e, (ast.GeneratorExp, ast.ListComp)) and len(e.generators) == 1 and not e.generators[0].ifs and isinstance(e.generators[0].target, ast.Name):
                tr = elt_transform(e.elt, e.generators[0].target.id)
                if tr:
                    return tr, ast.unparse(e.generators[0].iter)
            return "id", ast.unparse(e)

        def pairs(arg, at):
            """(transform, source, value) of the pairs handed to update(); value is source text, 'None' or '<element>'"""
            if isinstance(arg, ast.Call):
                fn = ast.unparse(arg.func)
                kw = {k.arg: k.value for k in arg.keywords}
                if fn in ("zip_longest", "itertools.zip_longest") and len(arg.args) == 2 and ast.unparse(arg.args[1]) == "[]" and set(kw) == {"fillvalue"}:
                    return keys(arg.args[0], at) + (ast.unparse(kw["fillvalue"]),)
                if fn in ("zip_longest", "itertools.zip_longest", "zip") and len(arg.args) == 2 and not kw:
                    tr, src = keys(arg.args[0], at)
                    if keys(arg.args[1], at) == ("id", src):
                        return tr, src, "<element>"
                if fn == "dict.fromkeys" and len(arg.args) in (1, 2) and not kw:
                    return keys(arg.args[0], at) + (ast.unparse(arg.args[1]) if len(arg.args) == 2 else "None",)
            comp = None
            if isinstance(arg, ast.DictComp):
                comp = (arg.key, arg.value, arg.generators)
            elif isinstance(arg, (ast.GeneratorExp, ast.ListComp)) and isinstance(arg.elt, ast.Tuple) and len(arg.elt.elts) == 2:
                comp = (arg.elt.elts[0], arg.elt.elts[1], arg.generators)
            if comp and len(comp[2]) == 1 and not comp[2][0].ifs and isinstance(comp[2][0].target, ast.Name):
                var = comp[2][0].target.id
                tr = elt_transform(comp[0], var)
                uses = {x.id for x in ast.walk(comp[1]) if isinstance(x, ast.Name)}
                if tr and (isinstance(comp[1], ast.Name) and comp[1].id == var):
                    return tr, ast.unparse(comp[2][0].iter), "<element>"
                if tr and var not in uses:
                    return tr, ast.unparse(comp[2][0].iter), ast.unparse(comp[1])
            return None

        order = []
        for st in iter_own_stmts(root.body):
            n = st.value if isinstance(st, ast.Expr) else None
            if not (isinstance(n, ast.Call) and isinstance(n.func, ast.Attribute) and n.func.attr == "update"
                    and isinstance(n.func.value, ast.Name) and n.func.value.id == dname):
                continue
            t = " ".join(ast.unparse(n).split())
            d = pairs(n.args[0], st) if len(n.args) == 1 and not n.keywords else None
            if d is None:
                raise AnalysisError(RULE, "Dictionary.__init__: unrecognised update of the dictionary: %s" % t[:80])
            tr, src, val = d
            facts = {ast.unparse(a_) for test, pol in enclosing_tests(root, n) for a_, p in conjuncts(test, pol) if p}
            loops = [a_ for a_ in ancestors(root, n) if isinstance(a_, ast.For)]
            want = None
            if src == "locale_info['skip']" and "'skip' in locale_info" in facts:
                role, want = "skip", ("lower", "None")
            elif src == "locale_info['pertain']" and "'pertain' in locale_info" in facts:
                role, want = "pertain", ("lower", "None")
            elif src == "ALWAYS_KEEP_TOKENS":
                role, want = "always_keep", ("id", "<element>")
            elif src == "PARSER_KNOWN_TOKENS":
                role, want = "parser_known", ("lower", "<element>")
            else:
                role = None
                for l_ in loops:
                    if ast.unparse(l_.iter) == "KNOWN_WORD_TOKENS" and isinstance(l_.target, ast.Name) and src == "locale_info[%s]" % l_.target.id \
                            and "%s in locale_info" % l_.target.id in facts:
                        role, want = "known", ("lower", l_.target.id)
                    it = ast.unparse(l_.iter)
                    if it.endswith(".items()") and it[:-8] in rel_names and isinstance(l_.target, ast.Tuple) and len(l_.target.elts) == 2 \
                            and all(isinstance(e_, ast.Name) for e_ in l_.target.elts) and src == l_.target.elts[1].id:
                        role, want = "relative", ("lower", l_.target.elts[0].id)
            if role is None:
                raise AnalysisError(RULE, "Dictionary.__init__: unrecognised update of the dictionary: %s" % t[:80])
            if (tr, val) != want:
                if role in ("skip", "pertain") and val != "None":
                    raise AnalysisError(RULE, "Dictionary.__init__: %s words no longer map to None" % role)
                raise AnalysisError(RULE, "Dictionary.__init__: the %s fill changed: keys %s, values %s (the model has keys %s, values %s)"
                                    % (role, tr, val, want[0], want[1]))
            order.append(role)
        if sorted(order) != sorted(["skip", "pertain", "known", "always_keep", "parser_known", "relative"]):
            raise AnalysisError(RULE, "Dictionary.__init__ update sequence changed: %s" % order)
        return order

    def _check_normalize_model(self):
        """normalize_unicode(string, form='NFKD') is the characters of unicodedata.normalize(form, string) that are not of category Mn,
        joined - written as a filtered comprehension or as a loop that collects them"""
        f = self.ctx.ix.func("dateparser.utils:normalize_unicode")
        bad = AnalysisError(RULE, "normalize_unicode no longer is NFKD minus Mn")
        ps = f.params()
        if len(ps) != 2 or [ast.unparse(d) for d in f.node.args.defaults] != ["'NFKD'"]:
            raise bad
        src = "unicodedata.normalize(%s, %s)" % (ps[1], ps[0])

        mod_strs = {k_: v_[0].value for k_, v_ in f.module.assigns.items() if len(v_) == 1 and isinstance(v_[0], ast.Constant) and isinstance(v_[0].value, str)}

        class _Consts(ast.NodeTransformer):         # a module-level name for the category string stands for the string
            def visit_Name(self, node):
                return ast.copy_location(ast.Constant(value=mod_strs[node.id]), node) if node.id in mod_strs and isinstance(node.ctx, ast.Load) else node

        def keeps(test, var):
            """+1: the test is true for the characters that are kept, -1: for those that are dropped, 0: something else"""
            from ..core.ctx import fresh_copy
            t = " ".join(ast.unparse(_Consts().visit(fresh_copy(test))).split())
            if t == "unicodedata.category(%s) != 'Mn'" % var or t == "not unicodedata.category(%s) == 'Mn'" % var:
                return 1
            if t == "unicodedata.category(%s) == 'Mn'" % var or t == "not unicodedata.category(%s) != 'Mn'" % var:
                return -1
            return 0
        body = [x for x in f.node.body if not (isinstance(x, ast.Expr) and isinstance(x.value, ast.Constant))]
        # a local that only names the normalised string: `decomposed = unicodedata.normalize(form, string)`
        named = [x for x in body if isinstance(x, ast.Assign) and len(x.targets) == 1 and isinstance(x.targets[0], ast.Name) and ast.unparse(x.value) == src]
        if len(named) == 1 and sum(1 for n in ast.walk(f.node) if isinstance(n, ast.Name) and n.id == named[0].targets[0].id) == 2:
            alias = named[0].targets[0].id
            body = [x for x in body if x is not named[0]]
        else:
            alias = None
        ret = body[-1] if body and isinstance(body[-1], ast.Return) else None
        if ret is None or not (isinstance(ret.value, ast.Call) and ast.unparse(ret.value.func) == "''.join" and len(ret.value.args) == 1):
            raise bad
        arg = ret.value.args[0]
        if len(body) == 1 and isinstance(arg, (ast.GeneratorExp, ast.ListComp)) and len(arg.generators) == 1:
            g = arg.generators[0]
            if isinstance(g.target, ast.Name) and isinstance(arg.elt, ast.Name) and arg.elt.id == g.target.id and ast.unparse(g.iter) in (src, alias) \
                    and len(g.ifs) == 1 and keeps(g.ifs[0], g.target.id) == 1:
                return
            raise bad
        # acc = []; for c in <src>: [if <dropped>: continue] acc.append(c) | if <kept>: acc.append(c); return ''.join(acc)
        if len(body) == 3 and isinstance(arg, ast.Name) and isinstance(body[0], ast.Assign) and ast.unparse(body[0]) == "%s = []" % arg.id \
                and isinstance(body[1], ast.For) and not body[1].orelse and isinstance(body[1].target, ast.Name) and ast.unparse(body[1].iter) in (src, alias):
            v, acc, lb = body[1].target.id, arg.id, body[1].body
            app = "%s.append(%s)" % (acc, v)
            if len(lb) == 2 and isinstance(lb[0], ast.If) and not lb[0].orelse and keeps(lb[0].test, v) == -1 \
                    and len(lb[0].body) == 1 and isinstance(lb[0].body[0], ast.Continue) and ast.unparse(lb[1]) == app:
                return
            if len(lb) == 1 and isinstance(lb[0], ast.If) and not lb[0].orelse and keeps(lb[0].test, v) == 1 \
                    and len(lb[0].body) == 1 and ast.unparse(lb[0].body[0]) == app:
                return
        raise bad

    def _check_normalized_dictionary(self):
        from .c16 import _norm_fingerprint
        f = self.ctx.ix.func("dateparser.languages.dictionary:NormalizedDictionary._normalize")
        src = '''
def _normalize(self):
    new_dict = {}
    conflicting_keys = []
    for key, value in self._dictionary.items():
        normalized = normalize_unicode(key)
        if key != normalized and normalized in self._dictionary:
            conflicting_keys.append(key)
        else:
            new_dict[normalized] = value
    for key in conflicting_keys:
        normalized = normalize_unicode(key)
        if key in (self.info.get("skip", []) + self.info.get("pertain", [])):
            new_dict[normalized] = self._dictionary[key]
    self._dictionary = new_dict
    self._relative_strings = list(map(normalize_unicode, self._relative_strings))
'''
        # model parameter: which of two spellings that normalise to the same key survives (the table order decides the rest)
        src_first = src.replace("            new_dict[normalized] = value\n", "            new_dict.setdefault(normalized, value)\n")
        fp = _norm_fingerprint(f.node)
        if fp == _norm_fingerprint(ast.parse(src).body[0]):
            self.norm_first_wins = False
        elif fp == _norm_fingerprint(ast.parse(src_first).body[0]):
            self.norm_first_wins = True
        else:
            raise AnalysisError(RULE, "NormalizedDictionary._normalize no longer matches the modelled conflict policy")

    def _simplification_template(self):
        f = self.ctx.ix.func("dateparser.languages.locale:Locale._get_simplifications")
        tmpl = set()
        flags = set()
        for n in iter_own_nodes(f.node):
            if isinstance(n, ast.BinOp) and isinstance(n.op, ast.Mod) and isinstance(n.left, ast.Constant) and isinstance(n.left.value, str):
                tmpl.add(n.left.value)
            if isinstance(n, ast.Call) and ast.unparse(n.func) in ("re.compile", "regex.compile"):
                for k in n.keywords:
                    if k.arg == "flags":
                        flags.add(ast.unparse(k.value))
        if len(tmpl) != 1 or len(flags) != 1:
            raise AnalysisError(RULE, "_get_simplifications: wrapper template / flags not unique: %s %s" % (tmpl, flags))
        t = " ".join(ast.unparse(f.node).split())
        import re as _re
        m_ = _re.search(r"(\w+) = eval\(self\.info\.get\('no_word_spacing', 'False'\)\)", t)
        if not m_ or ("if not %s:" % m_.group(1)) not in t:
            raise AnalysisError(RULE, "_get_simplifications: no_word_spacing switch changed")
        g = self.ctx.ix.func("dateparser.languages.locale:Locale._generate_simplifications")
        t = " ".join(ast.unparse(g.node).split())
        import re as _re
        for frag in (r"(\w+) = normalize_unicode\(\1\)", r"(\w+)\[(\w+)\] = str\((\w+)\)",
                     r"normalize_unicode\((\w+)\) if normalize else \1", r"self\.info\.get\('simplifications', \[\]\)"):
            if not _re.search(frag, t):
                raise AnalysisError(RULE, "_generate_simplifications shape changed (missing %r)" % frag)
        return tmpl.pop(), _flags(flags.pop())

    def _relsplit_guarded(self):
        """Dictionary.split applies the relative split expression only when the locale has counted patterns (otherwise the
        expression has an empty alternative and matches between any two non-word characters)"""
        from ..core.ctx import conjuncts, enclosing_tests
        f = self.ctx.ix.func("dateparser.languages.dictionary:Dictionary.split")
        for n in iter_own_nodes(f.node):
            if isinstance(n, ast.Call) and isinstance(n.func, ast.Attribute) and n.func.attr == "split" and "relative" in ast.unparse(n.func.value):
                for t, pol in enclosing_tests(f.node, n):
                    for a, p in conjuncts(t, pol):
                        if p and ast.unparse(a) in ("self._relative_strings", "len(self._relative_strings) > 0", "self._relative_strings != []"):
                            return True
        return False

    def _sanitize_ops(self):
        """[(compiled regex | 'strip' , replacement)] as sanitize_date applies them"""
        ix = self.ctx.ix

        def ops_of(fkey):
            f = ix.func(fkey)
            p = f.params()[0]
            out = []
            from .util import pipeline_body
            for s in pipeline_body(f.node.body, p):
                if isinstance(s, ast.Expr) and isinstance(s.value, ast.Constant):
                    continue        # docstring
                if isinstance(s, ast.Return):
                    if ast.unparse(s.value) != p:
                        raise AnalysisError(RULE, "%s does not return its rewritten argument" % fkey)
                    continue
                if not (isinstance(s, ast.Assign) and ast.unparse(s.targets[0]) == p and isinstance(s.value, ast.Call)):
                    raise AnalysisError(RULE, "%s: unrecognised statement %s" % (fkey, ast.unparse(s)[:60]))
                c = s.value
                fn = ast.unparse(c.func)
                if fn.endswith(".sub") and isinstance(c.func.value, ast.Name) and len(c.args) == 2 and ast.unparse(c.args[1]) == p:
                    from ..core.rx import module_regex
                    pat, fl = module_regex(ix, f.module.name, c.func.value.id) if c.func.value.id != "RE_SANITIZE_APOSTROPHE" else (None, "")
                    if pat is None:
                        chars = module_literal(self.ctx.repo, f.module.rel, "APOSTROPHE_LOOK_ALIKE_CHARS")
                        pat = "|".join(chars)
                    repl = fold_str(c.args[0], f, ix)
                    if repl is None:
                        raise AnalysisError(RULE, "%s: replacement of %s is not a literal" % (fkey, c.func.value.id))
                    out.append((regex.compile(pat, _flags(fl)), repl, c.func.value.id))
                elif fn in ("re.sub", "regex.sub") and len(c.args) == 3 and ast.unparse(c.args[2]) == p:
                    pat, repl = fold_str(c.args[0], f, ix), fold_str(c.args[1], f, ix)
                    if pat is None or repl is None:
                        raise AnalysisError(RULE, "%s: pattern/replacement of %s is not a literal" % (fkey, ast.unparse(c)[:60]))
                    fl = ""
                    for k in c.keywords:
                        if k.arg == "flags":
                            fl = ast.unparse(k.value)
                        else:
                            raise AnalysisError(RULE, "%s: unrecognised rewrite %s" % (fkey, ast.unparse(s)[:60]))
                    out.append((regex.compile(pat, _flags(fl)), repl, "inline:" + pat[:20]))
                elif fn == p + ".replace" and len(c.args) == 2 and not c.keywords:
                    a, b = fold_str(c.args[0], f, ix), fold_str(c.args[1], f, ix)
                    if a is None or b is None:
                        raise AnalysisError(RULE, "%s: arguments of %s are not literals" % (fkey, ast.unparse(c)[:60]))
                    out.append((regex.compile(regex.escape(a)), b.replace("\\", "\\\\"), "replace:" + a[:20]))
                elif fn == "sanitize_spaces" and [ast.unparse(a) for a in c.args] == [p]:
                    out += ops_of("dateparser.date:sanitize_spaces")
                elif fn == p + ".strip" and not c.args:
                    out.append(("strip", None, "strip"))
                else:
                    raise AnalysisError(RULE, "%s: unrecognised rewrite %s" % (fkey, ast.unparse(s)[:60]))
            return out
        return ops_of("dateparser.date:sanitize_date")

    def _check_translate_numerals(self):
        f = self.ctx.ix.func("dateparser.languages.locale:Locale._translate_numerals")
        t = " ".join(ast.unparse(f.node).split())
        import re as _re
        # statement form (loop that rewrites the decimal tokens in place) or expression form (one comprehension inside the join)
        stmt_form = (r"NUMERAL_PATTERN\.split\(date_string\)", r"if (\w+)\.isdecimal\(\):", r"str\(int\((\w+)\)\)\.zfill\(len\(\1\)\)", r"''\.join\((\w+)\)")
        expr_form = (r"''\.join\(", r"str\(int\((\w+)\)\)\.zfill\(len\(\1\)\) if \1\.isdecimal\(\) else \1 for \1 in NUMERAL_PATTERN\.split\(date_string\)")
        if not all(_re.search(frag, t) for frag in stmt_form) and not all(_re.search(frag, t) for frag in expr_form):
            missing = [frag for frag in stmt_form if not _re.search(frag, t)]
            raise AnalysisError(RULE, "_translate_numerals shape changed (missing %r)" % missing[0])

    def _check_simplify(self):
        f = self.ctx.ix.func("dateparser.languages.locale:Locale._simplify")
        t = " ".join(ast.unparse(f.node).split())
        import re as _re
        for frag in (r"date_string = date_string\.lower\(\)", r"date_string = (\w+)\.sub\((\w+), date_string\)\.lower\(\)"):
            if not _re.search(frag, t):
                raise AnalysisError(RULE, "_simplify shape changed (missing %r)" % frag)
        for key in ("dateparser.languages.locale:Locale.translate", "dateparser.languages.locale:Locale.is_applicable"):
            g = self.ctx.ix.func(key)
            tt = " ".join(ast.unparse(g.node).split())
            import re as _re
            ms = _re.search(r"(\w+)\.split\(date_string", tt)
            i1, i2, i3, i4 = (tt.find(x) for x in ("self._translate_numerals(date_string)", "normalize_unicode(date_string)",
                                                   "self._simplify(date_string", ms.group(0) if ms else "\0"))
            if -1 in (i1, i2, i3, i4) or not (i1 < i2 < i3 < i4) or "if settings.NORMALIZE: date_string = normalize_unicode(date_string)" not in tt:
                raise AnalysisError(RULE, "%s: numerals -> normalize -> simplify -> split order changed" % key)

    # ---- the model ------------------------------------------------------
    def sanitize(self, s):
        for rx_, repl, name in self.sanitize_ops:
            if rx_ == "strip":
                s = s.strip()
            else:
                s = rx_.sub(repl, s)
        return s

    @staticmethod
    def translate_numerals(s):
        toks = regex.split(r"(\d+)", s)
        for i, t in enumerate(toks):
            if t.isdecimal():
                toks[i] = str(int(t)).zfill(len(t))
        return "".join(toks)


def normalize_unicode(s):
    return "".join(c for c in unicodedata.normalize("NFKD", s) if unicodedata.category(c) != "Mn")


def extracted(ctx):
    return ctx.memo("vocab-extracted", lambda: Extracted(ctx))


class LocaleModel:
    def __init__(self, ctx, lang, locale):
        self.ex = extracted(ctx)
        ld = ctx.memo("langdata", lambda: LangData(ctx.repo))
        self.lang, self.locale = lang, locale
        self.info = ld.locale_info(lang, locale)
        self._dict = {}
        self._simp = {}
        nws = self.info.get("no_word_spacing", "False")
        if nws not in ("True", "False"):
            raise AnalysisError(RULE, "%s: no_word_spacing is %r" % (locale, nws))
        self.no_word_spacing = nws == "True"

    def plain_dictionary(self):
        info, ex = self.info, self.ex
        d = {}
        for step in ex.dict_order:
            if step == "skip":
                for w in info.get("skip", []):
                    d[w.lower()] = None
            elif step == "pertain":
                for w in info.get("pertain", []):
                    d[w.lower()] = None
            elif step == "known":
                for k in ex.known_words:
                    for w in info.get(k, []) if k in info else []:
                        d[w.lower()] = k
            elif step == "always_keep":
                for t in ex.always_keep:
                    d[t] = t
            elif step == "parser_known":
                for t in ex.parser_known:
                    d[t.lower()] = t
            elif step == "relative":
                for k, v in info.get("relative-type", {}).items():
                    for w in v:
                        d[w.lower()] = k
        return d

    def dictionary(self, normalize):
        if normalize not in self._dict:
            d = self.plain_dictionary()
            if normalize:
                nd, conflicts = {}, []
                for key, val in d.items():
                    n = normalize_unicode(key)
                    if key != n and n in d:
                        conflicts.append(key)
                    elif self.ex.norm_first_wins:
                        nd.setdefault(n, val)
                    else:
                        nd[n] = val
                sp = self.info.get("skip", []) + self.info.get("pertain", [])
                for key in conflicts:
                    if key in sp:
                        nd[normalize_unicode(key)] = d[key]
                d = nd
            self._dict[normalize] = d
        return self._dict[normalize]

    def simplifications(self, normalize):
        if normalize not in self._simp:
            out = []
            for simp in self.info.get("simplifications", []):
                k, v = list(simp.items())[0]
                if normalize:
                    k = normalize_unicode(k)
                v = str(v) if isinstance(v, int) else (normalize_unicode(v) if normalize else v)
                pat = k if self.no_word_spacing else self.ex.simpl_template % k
                try:
                    out.append((regex.compile(pat, self.ex.simpl_flags), v))
                except regex.error as e:
                    raise AnalysisError(RULE, "%s: simplification %r does not compile: %s" % (self.locale, k, e))
            self._simp[normalize] = out
        return self._simp[normalize]

    def simplify(self, s, normalize):
        s = s.lower()
        for pat, repl in self.simplifications(normalize):
            s = pat.sub(repl, s).lower()
        return s

    def rewrite(self, s, normalize, sanitize=True):
        """the string as it reaches Dictionary.split"""
        if sanitize:
            s = self.ex.sanitize(s)
        s = self.ex.translate_numerals(s)
        if normalize:
            s = normalize_unicode(s)
        return self.simplify(s, normalize)

    def meanings(self, keys):
        """{lower-cased word: set of vocabulary keys listing it} over month/weekday/unit/direction keys and relative phrases"""
        out = {}
        for k in self.ex.known_words:
            for w in self.info.get(k, []) if k in self.info else []:
                out.setdefault(w.lower(), set()).add(k)
        for k, v in self.info.get("relative-type", {}).items():
            for w in v:
                out.setdefault(w.lower(), set()).add(k)
        return out

"""C10 — strictness only filters; strict results never borrow from the clock.

R1 non-interference: STRICT_PARSING / REQUIRE_PARTS are read only inside a raise-only filter
R2 every completion of a missing part is dominated by the filter (directly or through a callee that always filters)
R3 clock-derived values enter a result only in contexts that imply a missing part (or the two-digit-year century)
"""
import ast

from ..core.cfg import CFG
from ..core.ctx import ancestors, conjuncts, enclosing_tests
from ..core.index import iter_own_nodes, iter_own_stmts
from ..core.repo import AnalysisError

LEVEL = "other"
EXPLANATION = (
    "Non-interference: every read of STRICT_PARSING / REQUIRE_PARTS sits in a function that has no effect other than "
    "raising ValueError (no stores, no returned value, only pure helper calls) and whose call sites are expression "
    "statements, so strictness can only turn a result into a failure. Must-pass-through: every site that completes a "
    "missing part (set_correct_*_from_settings, reference-time defaults, datetime.today()) is dominated on the CFG by a "
    "call of that filter with the list of missing parts, directly or through a callee all of whose normal exits are "
    "dominated by the filter. Clock taint: reads of the reference time / system clock in the absolute and custom-format "
    "paths occur only as `part or now.part` defaults, as comparison operands, or under a missing-part guard. Does not "
    "decide that a strict failure of one parser/locale is not replaced by another parser's success."
)
FILTER = "dateparser.parser:_check_strict_parsing"
STRICT = ("STRICT_PARSING", "REQUIRE_PARTS")
SETTINGS = "C:dateparser.conf:Settings"
PURE_CALLS = {"_get_missing_error", "format", "join", "isinstance", "len", "str", "ValueError", "list", "set", "sorted"}


def run(ctx, chk):
    r1(ctx, chk)
    r2(ctx, chk)
    r3(ctx, chk)
    from .c08 import r5 as recovery_rule
    recovery_rule(ctx, chk, "C10.R4")
    stated_parts_rule(ctx, chk, "C10.R5")
    nospace_complete_formats_rule(ctx, chk, "C10.R6")


def r1(ctx, chk):
    rule = "C10.R1"
    ix, ti = ctx.ix, ctx.ti
    readers = {}
    for f in ix.funcs.values():
        if f.file in ("dateparser/languages/validation.py",) or "custom_language_detection" in f.file:
            continue
        for n in iter_own_nodes(f.node):
            if isinstance(n, ast.Attribute) and n.attr in STRICT and isinstance(n.ctx, ast.Load):
                readers.setdefault(f.key, []).append(n)
    chk.floor(rule, sum(len(v) for v in readers.values()), 2, "reads of STRICT_PARSING / REQUIRE_PARTS")
    for fk, nodes in sorted(readers.items()):
        f = ix.funcs[fk]
        problems = []
        for n in iter_own_nodes(f.node):
            if isinstance(n, (ast.Assign, ast.AugAssign)):
                tg = n.targets if isinstance(n, ast.Assign) else [n.target]
                for t in tg:
                    if not isinstance(t, ast.Name):
                        problems.append("store to %s" % ast.unparse(t))
            elif isinstance(n, ast.Return) and n.value is not None and not (isinstance(n.value, ast.Constant) and n.value.value is None):
                problems.append("returns a value")
            elif isinstance(n, ast.Call):
                nm = ast.unparse(n.func).split(".")[-1]
                # filling a list / set this function created itself changes nothing outside it
                local_box = isinstance(n.func, ast.Attribute) and nm in ("append", "add", "extend") and isinstance(n.func.value, ast.Name) and any(
                    isinstance(m_, ast.Assign) and len(m_.targets) == 1 and isinstance(m_.targets[0], ast.Name) and m_.targets[0].id == n.func.value.id
                    and ast.unparse(m_.value) in ("[]", "set()", "list()") for m_ in iter_own_nodes(f.node)) and n.func.value.id not in f.params()
                if nm not in PURE_CALLS and not local_box:
                    problems.append("calls %s" % nm)
            elif isinstance(n, (ast.Global, ast.Nonlocal, ast.Delete, ast.Yield, ast.YieldFrom)):
                problems.append(type(n).__name__)
        raises = [n for n in iter_own_nodes(f.node) if isinstance(n, ast.Raise)]
        if not all("ValueError" in ast.unparse(r) for r in raises) or not raises:
            problems.append("does not (only) raise ValueError")
        chk.ob(rule, "%s reads %s and is raise-only" % (f.qual, sorted({n.attr for n in nodes})), not problems,
               "strictness settings are read where they can change a result instead of only rejecting it: %s" % problems[:3],
               key={"function": fk, "construct": "raise-only reader"}, file=f.file, function=f.qual, line=nodes[0].lineno)
        # call sites use it as a statement (no value consumed)
        for ck in ctx.cg.callers.get(fk, ()):
            c = ix.funcs[ck]
            for s in ctx.cg.sites[ck]:
                if f in s.callees and isinstance(s.node, ast.Call):
                    par = ancestors(c.node, s.node)[0]
                    chk.ob(rule, "%s calls the filter as a statement" % c.qual, isinstance(par, ast.Expr),
                           "the filter's value is used", key={"function": ck, "construct": "filter call is a statement"},
                           file=c.file, function=c.qual, line=s.node.lineno)
    # the filter raises for STRICT_PARSING and any missing part; for REQUIRE_PARTS exactly when a required part is missing - decided by
    # evaluating the function for every combination of (STRICT_PARSING, REQUIRE_PARTS, missing parts)
    import itertools
    from ..core.minieval import Evaluator, Raised, Unknown
    f = ix.func(FILTER)
    p = f.params()
    miss, st = p[0], p[1]
    parts = ("day", "month", "year")
    subsets = [list(c) for k_ in range(4) for c in itertools.combinations(parts, k_)]
    wrong, n_comb = [], 0
    try:
        for strict in (False, True):
            for req in subsets:
                for missing in subsets:
                    def oracle(e, env, strict=strict, req=req):
                        if isinstance(e, ast.Attribute) and isinstance(e.value, ast.Name) and e.value.id == st:
                            if e.attr == "STRICT_PARSING":
                                return strict
                            if e.attr == "REQUIRE_PARTS":
                                return list(req)
                        raise Unknown(ast.unparse(e)[:40])
                    try:
                        Evaluator(oracle).call(f.node, {miss: list(missing), st: object()})
                        raised = False
                    except Raised as r_:
                        raised = True
                        if "ValueError" not in r_.text:
                            wrong.append((strict, req, missing, "raises %s" % r_.text[:30]))
                    want = bool((strict and missing) or (set(req) & set(missing)))
                    n_comb += 1
                    if raised != want:
                        wrong.append((strict, req, missing, "rejected" if raised else "accepted"))
    except Unknown as e_:
        chk.error(rule, "_check_strict_parsing: the decision is computed by something this rule cannot evaluate (%s)" % e_)
        return
    chk.ob(rule, "_check_strict_parsing: STRICT => any missing part fails; REQUIRE_PARTS => exactly the required missing parts fail "
                 "(%d combinations evaluated)" % n_comb, not wrong,
           "(STRICT_PARSING, REQUIRE_PARTS, missing) -> outcome: %s" % wrong[:3], key={"function": FILTER, "construct": "filter semantics"},
           file=f.file, function=f.qual, line=f.node.lineno)


# ---------------------------------------------------------------------------
def _is_filter_call(ctx, f, n, always):
    if not isinstance(n, ast.Call):
        return False
    for s in ctx.cg.sites.get(f.key, ()):
        if s.node is n:
            return any(c.key == FILTER or c.key in always for c in s.callees) and \
                all(c.key == FILTER or c.key in always or c.name == "wrapper" for c in s.callees if not isinstance(c.node, ast.Lambda))
    return False


def _always_filters(ctx):
    """functions all of whose normal exits are dominated by a filter call (fixpoint)"""
    always = set()
    changed = True
    cfgs = {}
    while changed:
        changed = False
        for f in ctx.ix.funcs.values():
            if f.key in always or f.key == FILTER or isinstance(f.node, ast.Lambda) or f.qual == "<module>":
                continue
            stmts = [s for s in iter_own_stmts(f.node.body)
                     if not isinstance(s, (ast.If, ast.For, ast.While, ast.Try, ast.With))
                     and any(_is_filter_call(ctx, f, n, always) for n in ast.walk(s))]
            if not stmts:
                continue
            g = cfgs.get(f.key) or CFG(f.node)
            cfgs[f.key] = g
            ids = set()
            for s in stmts:
                ids |= set(g.nodes_of(s))
            dom = g.dominators()
            if g.exit.id in dom and dom[g.exit.id] & ids:
                always.add(f.key)
                changed = True
    return always


def completion_sites(ctx, reach):
    """(func, node, what) where a missing part is filled in"""
    out = []
    for fk in sorted(reach):
        f = ctx.ix.funcs[fk]
        if f.file == "dateparser/freshness_date_parser.py" or f.file == "dateparser/utils/__init__.py":
            continue
        for n in iter_own_nodes(f.node):
            if isinstance(n, ast.Call):
                nm = ast.unparse(n.func).split(".")[-1]
                if nm in ("set_correct_day_from_settings", "set_correct_month_from_settings"):
                    out.append((f, n, nm))
                elif ast.unparse(n.func) in ("datetime.today", "datetime.now", "datetime.utcnow") and f.key == "dateparser.date:parse_with_formats":
                    out.append((f, n, "system clock"))
            if isinstance(n, ast.BoolOp) and isinstance(n.op, ast.Or) and len(n.values) == 2:
                r = ast.unparse(n.values[1])
                if r.startswith("self.now.") or r.startswith("now_"):
                    out.append((f, n, "reference-time default " + r))
    return out


def r2(ctx, chk):
    rule = "C10.R2"
    ix = ctx.ix
    always = _always_filters(ctx)
    chk.note("functions that always run the filter before returning: %s" % sorted(k.split(":")[1] for k in always))
    entries = ["dateparser.date:DateDataParser.get_date_data", "dateparser.calendars:CalendarBase.get_date"]
    reach = ctx.cg.reachable(entries)
    sites = completion_sites(ctx, reach)
    chk.floor(rule, len(sites), 6, "completion sites (missing part filled in)")
    cfgs = {}

    def dominated_in(f, node):
        g = cfgs.get(f.key) or CFG(f.node)
        cfgs[f.key] = g
        nid = g.node_of_expr(f.node, node)
        if nid is None:
            return False
        fids = set()
        for s in iter_own_stmts(f.node.body):
            if isinstance(s, (ast.If, ast.For, ast.While, ast.Try, ast.With)):
                continue
            if any(_is_filter_call(ctx, f, x, always) for x in ast.walk(s)):
                fids |= set(g.nodes_of(s))
        dom = g.dominators()
        return nid in dom and bool(dom[nid] & fids)

    def covered(f, node, depth=0, seen=()):
        if dominated_in(f, node):
            return True
        if depth > 4 or f.key in seen:
            return False
        callers = [(ix.funcs[ck], s) for ck in ctx.cg.callers.get(f.key, ()) if ck in reach or True
                   for s in ctx.cg.sites[ck] if f in s.callees and isinstance(s.node, (ast.Call,))]
        callers = [(c, s) for c, s in callers if c.key in reach]
        if not callers:
            return False
        return all(covered(c, s.node, depth + 1, seen + (f.key,)) for c, s in callers)

    for f, node, what in sites:
        ok = covered(f, node)
        chk.ob(rule, "%s L%d: %s is dominated by the strictness filter" % (f.qual, node.lineno, what), ok,
               "a part missing from the string is filled in on a path that never consulted STRICT_PARSING / REQUIRE_PARTS",
               key={"function": f.key, "construct": "filter dominates " + what.split(" ")[0] + " " + " ".join(ast.unparse(node).split())[:50]},
               file=f.file, function=f.qual, line=node.lineno, text=ast.unparse(node)[:120])
    # the filter receives the list of missing parts computed from the parsed components / the format
    for fk, expect in (("dateparser.parser:_parser._results", r"not getattr\(self, \w+\)"),
                       ("dateparser.parser:_no_spaces_parser.parse", r"_get_missing_parts\(\w+\)"),
                       ("dateparser.date:parse_with_formats", r"_get_missing_parts\(\w+\)")):
        f = ix.func(fk)
        calls = [n for n in iter_own_nodes(f.node) if isinstance(n, ast.Call) and _is_filter_call(ctx, f, n, always)]
        if fk.endswith("_results") and len(calls) == 1 and calls[0].args:
            # decided by evaluating the statements in front of the call for the eight combinations of present parts
            import itertools
            from ..core.minieval import Evaluator, Unknown
            stmt_i = next((i for i, st_ in enumerate(f.node.body) if any(x is calls[0] for x in ast.walk(st_))), None)
            wrong = []
            try:
                if stmt_i is None:
                    raise Unknown("the filter call is not a top-level statement")
                # a part can be absent as None or as 0 (a numeric token '0' / '00' is stored as int 0): both count as missing
                for have in itertools.product((None, 0, 5), repeat=3):
                    present = dict(zip(("day", "month", "year"), have))

                    def oracle(e, env, present=present):
                        if isinstance(e, ast.Call) and ast.unparse(e.func) == "getattr" and len(e.args) in (2, 3) and ast.unparse(e.args[0]) == "self":
                            k_ = e.args[1].value if isinstance(e.args[1], ast.Constant) else env.get(getattr(e.args[1], "id", None))
                            if k_ in present:
                                return present[k_]
                        if isinstance(e, ast.Attribute) and isinstance(e.value, ast.Name) and e.value.id == "self" and e.attr in present:
                            return present[e.attr]
                        raise Unknown(ast.unparse(e)[:40])
                    ev_ = Evaluator(oracle)
                    env = {}
                    # only the statements the argument depends on (a backward slice by names): other work done before the call is not
                    # this obligation's business
                    need = {x.id for x in ast.walk(calls[0].args[0]) if isinstance(x, ast.Name)} - {"self"}
                    keep = []
                    for st_ in reversed(f.node.body[:stmt_i]):
                        names_ = {x.id for x in ast.walk(st_) if isinstance(x, ast.Name)} - {"self"}
                        if names_ & need:
                            keep.append(st_)
                            need |= names_
                    ev_.run(list(reversed(keep)), env)
                    got = ev_.ev(calls[0].args[0], env)
                    want = [k_ for k_ in ("day", "month", "year") if not present[k_]]
                    if sorted(got) != sorted(want):
                        wrong.append((present, got))
            except Unknown as e_:
                chk.error(rule, "%s: the argument of the filter is computed by something this rule cannot evaluate (%s)" % (f.qual, e_))
                continue
            chk.ob(rule, "%s hands the filter the parts that are really missing (%s)" % (f.qual, expect), not wrong,
                   "the filter is called with something else than the computed missing parts: %s" % wrong[:2],
                   key={"function": fk, "construct": "filter argument"}, file=f.file, function=f.qual, line=f.node.lineno)
            continue
        ok = False
        for c in calls:
            if c.args and isinstance(c.args[0], ast.Name):
                defs = [ast.unparse(n.value) for n in iter_own_nodes(f.node) if isinstance(n, ast.Assign)
                        and ast.unparse(n.targets[0]) == c.args[0].id]
                if any(__import__("re").search(expect, d) for d in defs):
                    ok = True
            elif c.args and __import__("re").search(expect, ast.unparse(c.args[0])):
                ok = True           # the list of missing parts written out in the argument itself
        chk.ob(rule, "%s hands the filter the parts that are really missing (%s)" % (f.qual, expect), ok,
               "the filter is called with something else than the computed missing parts",
               key={"function": fk, "construct": "filter argument"}, file=f.file, function=f.qual, line=f.node.lineno)
    # a filter failure inside parse_with_formats / the no-spaces parser must not be swallowed into a *result*
    pf = ix.func("dateparser.date:parse_with_formats")
    for n in iter_own_nodes(pf.node):
        if isinstance(n, ast.Try) and any(isinstance(x, ast.Call) and ast.unparse(x.func) == "_check_strict_parsing" for x in ast.walk(ast.Module(body=n.body, type_ignores=[]))):
            ok = all(all(isinstance(s, (ast.Continue, ast.Pass)) or (isinstance(s, ast.Return) and "None" in ast.unparse(s)) for s in h.body) for h in n.handlers)
            chk.ob(rule, "parse_with_formats: a format rejected by the filter is skipped", ok, "the handler produces a result",
                   key={"function": pf.key, "construct": "rejected format skipped"}, file=pf.file, function=pf.qual, line=n.lineno)


# ---------------------------------------------------------------------------
def r3(ctx, chk):
    rule = "C10.R3"
    ix = ctx.ix
    entries = ["dateparser.date:DateDataParser.get_date_data"]
    reach = ctx.cg.reachable(entries)
    scope = [fk for fk in reach if ix.funcs[fk].file in ("dateparser/parser.py", "dateparser/date.py", "dateparser/utils/__init__.py",
                                                          "dateparser/date_parser.py")]
    n = 0
    for fk in sorted(scope):
        f = ix.funcs[fk]
        if f.qual.startswith(("date_range", "get_intersecting_periods")):
            continue
        for node in iter_own_nodes(f.node):
            src = None
            if isinstance(node, ast.Attribute) and isinstance(node.ctx, ast.Load) and node.attr == "now" and ast.unparse(node.value) == "self":
                src = "self.now"
            elif isinstance(node, ast.Attribute) and node.attr == "RELATIVE_BASE" and isinstance(node.ctx, ast.Load):
                src = "RELATIVE_BASE"
            elif isinstance(node, ast.Call) and ast.unparse(node.func) in ("datetime.now", "datetime.today", "datetime.utcnow"):
                src = ast.unparse(node.func) + "()"
            if src is None:
                continue
            n += 1
            ctxs = _context(f, node)
            chk.ob(rule, "%s L%d: %s used as %s" % (f.qual, node.lineno, src, ctxs or "?"), ctxs is not None,
                   "the reference time / clock flows into the result outside the contexts that imply a missing part",
                   key={"function": fk, "construct": "clock use: " + " ".join(ast.unparse(ancestors(f.node, node)[0]).split())[:70]},
                   file=f.file, function=f.qual, line=node.lineno)
    chk.floor(rule, n, 10, "reads of the reference time / system clock in the absolute and custom-format paths")


def _context(f, node, _depth=0):
    """name of the accepted context of a clock read, or None"""
    chain = [node] + ancestors(f.node, node)
    for child, par in zip(chain, chain[1:]):
        if isinstance(par, ast.BoolOp) and isinstance(par.op, ast.Or) and child is not par.values[0]:
            return "default of `%s or ...`" % ast.unparse(par.values[0])
        if isinstance(par, ast.Compare):
            return "comparison operand (controls a shift only)"
        if isinstance(par, (ast.If, ast.While)) and child is par.test:
            return "test"
        if isinstance(par, ast.UnaryOp) and isinstance(par.op, ast.Not):
            continue
        if isinstance(par, ast.Assert):
            return "assertion"
        if isinstance(par, ast.Assign):
            tgt = ast.unparse(par.targets[0])
            if tgt == "self.now":
                return "initialises self.now"
            # a plain alias (`now = self.now`): fine when every use of the alias sits in an accepted context
            if child is node and par.value is node and len(par.targets) == 1 and isinstance(par.targets[0], ast.Name) and _depth < 2:
                uses = [x for x in iter_own_nodes(f.node) if isinstance(x, ast.Name) and x.id == par.targets[0].id and isinstance(x.ctx, ast.Load)]
                stores = [x for x in iter_own_nodes(f.node) if isinstance(x, ast.Name) and x.id == par.targets[0].id and isinstance(x.ctx, ast.Store)]
                if uses and len(stores) == 1:
                    # an attribute read of the alias (now.day) stands where self.now.day stood
                    ctxs_ = [_context(f, (ancestors(f.node, u)[0] if isinstance(ancestors(f.node, u)[0], ast.Attribute) else u), _depth + 1) for u in uses]
                    if all(c_ is not None for c_ in ctxs_):
                        return "alias `%s`, every use of which is: %s" % (par.targets[0].id, sorted(set(ctxs_))[0])
            # today = datetime.today() under a missing-year guard; relative_base locals of _correct_for_month
            for test, pol in enclosing_tests(f.node, par):
                t = ast.unparse(test)
                if ("missing" in t or "'year' in" in t) and pol:
                    return "under the guard `%s`" % t[:40]
            if f.name in ("_correct_for_month", "_correct_for_day"):
                return "reference month/day handed to the completion helper (stage guarded by the missing part, C08.R2)"
            if f.name == "_set_relative_base":
                return "initialises self.now"
            return None
        if isinstance(par, ast.keyword) and par.arg in ("current_day", "current_month"):
            return "reference value handed to the completion helper (stage guarded by the missing part, C08.R2)"
        if isinstance(par, ast.Call) and ast.unparse(par.func).endswith("from_gregorian"):
            return "reference date converted for the non-Gregorian defaults"
        if isinstance(par, (ast.FunctionDef, ast.Lambda)):
            break
        if isinstance(par, ast.Call) and ast.unparse(par.func) == "hasattr":
            return "test"
        if isinstance(par, ast.IfExp):
            continue
    return None



def _absent_facts(fn, node):
    """names of date parts known to be NOT stated in the string when `node` runs: negative atoms `self._token_<part>` / `self.<part>`
    (through not/or/and, `not any([..])`) of the enclosing tests"""
    out = set()
    for t, pol in enclosing_tests(fn, node):
        for a, p in conjuncts(t, pol):
            atoms = [(a, p)]
            # not any([x, y, z])  ==  not x and not y and not z
            if not p and isinstance(a, ast.Call) and ast.unparse(a.func) == "any" and len(a.args) == 1 and isinstance(a.args[0], (ast.List, ast.Tuple)):
                atoms = [(e, False) for e in a.args[0].elts]
            for e, q in atoms:
                if q:
                    continue
                txt = ast.unparse(e)
                for part in ("year", "month", "day"):
                    if txt in ("self._token_" + part, "self." + part, "getattr(self, '_token_%s', None)" % part):
                        out.add(part)
    return out


def stated_parts_rule(ctx, chk, rule):
    """REQUIRE_PARTS / STRICT_PARSING accept a string because it states a part; the corrections that run afterwards in
    _correct_for_time_frame (nearest weekday, past/future year, time-only day shift) move the date and must leave every stated part
    alone: each of them is guarded by the absence of the tokens of all parts it can change.  The one sanctioned exception is the century
    of a two-digit year."""
    f = ctx.ix.func("dateparser.parser:_parser._correct_for_time_frame")
    dv = f.params()[1] if len(f.params()) > 1 else "dateobj"
    n = 0
    for s in iter_own_nodes(f.node):
        if not (isinstance(s, ast.Assign) and len(s.targets) == 1 and isinstance(s.targets[0], ast.Name) and s.targets[0].id == dv):
            continue
        v = s.value
        changed = None
        what = None
        if isinstance(v, ast.BinOp) and isinstance(v.op, (ast.Add, ast.Sub)) and ast.unparse(v.left) == dv:
            changed, what = {"year", "month", "day"}, "shifts the date by `%s`" % ast.unparse(v.right)
        elif isinstance(v, ast.Call) and isinstance(v.func, ast.Attribute) and v.func.attr == "replace" and ast.unparse(v.func.value) == dv:
            changed = {k.arg for k in v.keywords if k.arg in ("year", "month", "day")}
            what = "replaces %s" % sorted(changed)
            if not changed:
                continue
        else:
            continue        # tz normalisation (localize / astimezone / restoring the saved value) does not move calendar fields
        n += 1
        absent = _absent_facts(f.node, s)
        # century of a two-digit year
        exempt = False
        if changed == {"year"}:
            for t, pol in enclosing_tests(f.node, s):
                for a, p in conjuncts(t, pol):
                    if p and "".join(ast.unparse(a).split()) == "len(self._token_year[0])==2":
                        kw = [k.value for k in v.keywords if k.arg == "year"][0]
                        if isinstance(kw, ast.BinOp) and isinstance(kw.right, ast.Constant) and kw.right.value == 100 and ast.unparse(kw.left) == dv + ".year":
                            exempt = True
        missing = sorted(changed - absent)
        chk.ob(rule, "line %d: the correction that %s runs only when the string states none of %s" % (s.lineno, what, sorted(changed)),
               exempt or not missing,
               "not guarded by the absence of %s: a stated %s is moved after REQUIRE_PARTS / STRICT_PARSING accepted the string for stating it, "
               "so the required part depends on the reference time" % (missing, "/".join(missing)),
               key={"function": f.key, "construct": "correction " + " ".join(ast.unparse(s).split())[:50]},
               file=f.file, function=f.qual, line=s.lineno, text=" ".join(ast.unparse(s).split())[:100])
    chk.floor(rule, n, 6, "date-moving corrections in _correct_for_time_frame")



def nospace_complete_formats_rule(ctx, chk, rule):
    """the no-spaces parser keeps a match whose year has fewer than four digits aside (`ambiguous_date`) and returns it at the end WITHOUT
    passing the strictness filter - harmless exactly as long as every date format of its tables states day, month and year, so that the
    value kept aside never lacks a part.  (Time-only formats give year 1900 and go through the filter.)"""
    NS = ctx.ix.cls("dateparser.parser:_no_spaces_parser")
    n = 0
    for tbl in ("_dateformats", "_preferred_formats", "_preferred_formats_ordered_8_digit"):
        lit = NS.attrs.get(tbl)
        try:
            fmts = ast.literal_eval(lit)
        except Exception:
            raise AnalysisError(rule, "_no_spaces_parser.%s is not a literal list" % tbl)
        for fmt in fmts:
            n += 1
            missing = [p_ for p_, ds in (("day", ("%d",)), ("month", ("%m",)), ("year", ("%Y", "%y"))) if not any(d in fmt for d in ds)]
            chk.ob(rule, "_no_spaces_parser.%s: %s states day, month and year" % (tbl, fmt), not missing,
                   "the format lacks %s: a digit string it matches with a year below 1000 ('003002') is kept as the ambiguous candidate and returned "
                   "without the STRICT_PARSING / REQUIRE_PARTS check" % missing,
                   key={"table": tbl, "construct": fmt}, file="dateparser/parser.py", function="_no_spaces_parser." + tbl, line=None)
    chk.floor(rule, n, 18, "date formats of the no-spaces parser")

"""C19 — import survives a missing / empty / truncated timezone cache.

R1 handler coverage of open + pickle.load + unpack          R3 definite assignment of the three tables
R4 the rebuild reaches the write                            R5 packaging lists the cache file
R6 nothing the load can raise escapes the module's import-time code
R7 the write replaces whatever is on disk (truncating mode on the cache path, or write-elsewhere + os.replace onto it)
"""
import ast

from ..core.cfg import CFG
from ..core.effects import Effects, PICKLE_LOAD_FAILURES
from ..core.index import iter_own_nodes, iter_own_stmts
from ..core.repo import AnalysisError

LEVEL = "other"
EXPLANATION = (
    "Handler-coverage, definite-assignment and must-pass-through rules on timezone_parser._load_offsets and the "
    "module's import-time code: the try around open+pickle.load+unpack handles every class a missing, empty, "
    "truncated or garbage cache file can raise; on every path to a normal return the three global tables are "
    "assigned (an exception edge out of the unpack does not count as an assignment); every normal return is either "
    "the early return after a complete load or passes through the pickle.dump that rewrites the cache; the write opens the cache path in a truncating binary mode (or writes elsewhere and os.replace()s onto it), so "
    "an existing damaged file is replaced; the cache path is shipped by MANIFEST.in. Assumes a proper prefix of a pickle stream makes pickle.load raise (no STOP opcode)."
)
TP = "dateparser.timezone_parser"
REQUIRED = {
    "FileNotFoundError": "missing file",
    "EOFError": "empty file",
    "UnpicklingError": "file cut off at any byte ('pickle data was truncated')",
    "AttributeError": "garbage content (documented unpickling failure)",
    "ImportError": "garbage content (documented unpickling failure)",
    "IndexError": "garbage content (documented unpickling failure)",
    "ValueError": "a well-formed pickle of the wrong shape (unpack)",
    "TypeError": "a well-formed pickle of the wrong shape (unpack of a non-iterable)",
}


def run(ctx, chk):
    ix = ctx.ix
    f = ix.func(TP + ":_load_offsets")
    ef = Effects(ctx.cg)
    # locate the load
    loads = [n for n in iter_own_nodes(f.node) if isinstance(n, ast.Call) and ast.unparse(n.func) in ("pickle.load", "pickle.loads")]
    if len(loads) != 1:
        raise AnalysisError("C19.R1", "expected exactly one pickle.load in _load_offsets, found %d" % len(loads))
    load = loads[0]
    from ..core.ctx import enclosing_try_handlers

    tries = enclosing_try_handlers(f.node, load)
    names = []
    for t in tries:
        for h in t.handlers:
            names += ef.handler_names(h, f)
    rule = "C19.R1"
    for cls, why in REQUIRED.items():
        ok = any(nm is None or ef.h.issub(cls, nm) for nm in names)
        chk.ob(rule, "handler around pickle.load covers %s (%s)" % (cls, why), ok,
               "%s is not handled: import fails when the cache is in this state; handlers: %s" % (cls, names),
               key={"function": f.key, "construct": "handler covers " + cls}, file=f.file, function=f.qual,
               line=load.lineno)
    # the open() of the cache for reading is inside the same try
    opens = [n for n in iter_own_nodes(f.node) if isinstance(n, ast.Call) and ast.unparse(n.func) == "open"]
    ropen = [o for o in opens if "rb" in ast.unparse(o)]
    ok = bool(ropen) and all(any(t in enclosing_try_handlers(f.node, o) for t in tries) for o in ropen)
    chk.ob(rule, "the cache is opened for reading inside the same try", ok, "a missing file escapes the handler",
           key={"function": f.key, "construct": "open inside try"}, file=f.file, function=f.qual, line=load.lineno)
    # handlers fall through to the rebuild (no re-raise, no return)
    for t in tries:
        for h in t.handlers:
            bad = [s for s in ast.walk(ast.Module(body=h.body, type_ignores=[])) if isinstance(s, (ast.Raise, ast.Return))]
            chk.ob(rule, "handler `except %s` falls through to the rebuild" % (ast.unparse(h.type) if h.type else ""),
                   not bad, "the handler leaves the function instead of rebuilding",
                   key={"function": f.key, "construct": "handler falls through"}, file=f.file, function=f.qual,
                   line=h.lineno)

    # R3 definite assignment
    rule = "C19.R3"
    g = CFG(f.node, exc_sub=ef.h.issub, handler_names=lambda h: ef.handler_names(h, f))
    globs = []
    for s in iter_own_stmts(f.node.body):
        if isinstance(s, ast.Global):
            globs += s.names
    chk.floor(rule, len(globs), 3, "globals published by _load_offsets")
    for name in globs:
        assign_nodes = set()
        for s in iter_own_stmts(f.node.body):
            if isinstance(s, (ast.Assign, ast.AugAssign, ast.AnnAssign)):
                tg = s.targets if isinstance(s, ast.Assign) else [s.target]
                if any(isinstance(x, ast.Name) and x.id == name for t in tg for x in ast.walk(t)):
                    assign_nodes |= set(g.nodes_of(s))
        # exit reachable without a completed assignment?  (leaving an assignment node by an
        # exception edge means the assignment did not happen)
        seen, work = set(), [g.entry.id]
        bad = False
        while work:
            n = work.pop()
            if n in seen:
                continue
            seen.add(n)
            if n == g.exit.id:
                bad = True
                break
            for m, label in g.succ[n]:
                if n in assign_nodes and not label.startswith("exc"):
                    continue
                work.append(m)
        chk.ob(rule, "global %s is assigned on every path to a normal return" % name, not bad,
               "a path returns normally leaving %s unassigned (None): the library imports with a broken table" % name,
               key={"function": f.key, "construct": "definite assignment of " + name}, file=f.file, function=f.qual,
               line=f.node.lineno)

    # R4 every normal return is the early return (after a complete load) or follows the dump
    rule = "C19.R4"
    dumps = [s for s in iter_own_stmts(f.node.body) if any(
        isinstance(n, ast.Call) and ast.unparse(n.func) in ("pickle.dump",) for n in ast.walk(s)) and not isinstance(
        s, (ast.With, ast.Try, ast.If, ast.For, ast.While))]
    rets = [s for s in iter_own_stmts(f.node.body) if isinstance(s, ast.Return)]
    avoid = set()
    for s in dumps + rets:
        avoid |= set(g.nodes_of(s))
    path = g.path_avoiding([g.entry.id], {g.exit.id}, avoid)
    chk.ob(rule, "a rebuilt table is always written back (every fall-through exit passes pickle.dump)", bool(dumps) and path is None,
           "path to a normal return that neither loaded a complete cache nor rewrote it: %s" % (g.describe(path) if path else "no pickle.dump"),
           key={"function": f.key, "construct": "rebuild reaches pickle.dump"}, file=f.file, function=f.qual,
           line=f.node.lineno)
    # the early return is dominated by the unpack of the loaded tuple and guarded by the hash test
    unpack = [s for s in iter_own_stmts(f.node.body) if isinstance(s, ast.Assign) and any(n is load for n in ast.walk(s.value))]
    for r in rets:
        ok = bool(unpack) and g.dominates(unpack[0], r)
        chk.ob(rule, "the early return is dominated by the complete unpack of the loaded tuple", ok,
               "the function can return without having loaded the tables",
               key={"function": f.key, "construct": "return dominated by unpack"}, file=f.file, function=f.qual,
               line=r.lineno)
    # what is dumped is what was built: the tuple of the same three globals (+ hash)
    for s in dumps:
        call = [n for n in ast.walk(s) if isinstance(n, ast.Call) and ast.unparse(n.func) == "pickle.dump"][0]
        ok = bool(call.args) and isinstance(call.args[0], ast.Tuple) and \
            [ast.unparse(e) for e in call.args[0].elts][1:] == globs and len(call.args[0].elts) == 4
        chk.ob(rule, "pickle.dump writes (hash, %s)" % ", ".join(globs), ok,
               "the tuple written differs from the tuple the loader unpacks",
               key={"function": f.key, "construct": "dump tuple == unpack tuple"}, file=f.file, function=f.qual,
               line=s.lineno)
    if unpack:
        tg = unpack[0].targets[0]
        ok = isinstance(tg, ast.Tuple) and [ast.unparse(e) for e in tg.elts][1:] == globs
        chk.ob(rule, "the loader unpacks (hash, %s)" % ", ".join(globs), ok, "",
               key={"function": f.key, "construct": "unpack tuple"}, file=f.file, function=f.qual, line=unpack[0].lineno)

    # R8 a rebuild gives the same table every time it runs in a process
    from .c16 import tz_source_untouched_rule
    tz_source_untouched_rule(ctx, chk, "C19.R8")

    # R7 the write replaces whatever is on disk
    rule = "C19.R7"
    from ..core.effects import fold_str
    p_cache = f.params()[0]
    n_w = 0
    for s in dumps:
        call = [n for n in ast.walk(s) if isinstance(n, ast.Call) and ast.unparse(n.func) == "pickle.dump"][0]
        fobj = ast.unparse(call.args[1]) if len(call.args) > 1 else {k.arg: ast.unparse(k.value) for k in call.keywords}.get("file")
        withs = [w for w in iter_own_nodes(f.node) if isinstance(w, ast.With) and any(n is call for n in ast.walk(w))]
        op = None
        for w in withs:
            for it in w.items:
                if it.optional_vars is not None and ast.unparse(it.optional_vars) == fobj and isinstance(it.context_expr, ast.Call):
                    op = it.context_expr
        if op is None:
            # file = open(...) bound by assignment
            for n in iter_own_nodes(f.node):
                if isinstance(n, ast.Assign) and ast.unparse(n.targets[0]) == fobj and isinstance(n.value, ast.Call):
                    op = n.value
        if op is None:
            raise AnalysisError(rule, "cannot find where the file object %s written by pickle.dump is opened" % fobj)
        n_w += 1
        fn = ast.unparse(op.func)
        kw = {k.arg: k.value for k in op.keywords}
        if fn == "open":
            path_e = op.args[0] if op.args else kw.get("file")
            mode_e = op.args[1] if len(op.args) > 1 else kw.get("mode")
        elif fn.endswith(".open") and not op.args[:1] or fn.endswith(".open"):
            path_e = op.func.value
            mode_e = op.args[0] if op.args else kw.get("mode")
        else:
            raise AnalysisError(rule, "unrecognised opener %s for the cache write" % fn)
        mode = fold_str(mode_e, f, ix) if mode_e is not None else "r"
        path_t = ast.unparse(path_e) if path_e is not None else "?"
        direct = path_t == p_cache
        replaced = [n for n in iter_own_nodes(f.node) if isinstance(n, ast.Call) and ast.unparse(n.func) in ("os.replace", "os.rename", "shutil.move")
                    and len(n.args) == 2 and ast.unparse(n.args[0]) == path_t and ast.unparse(n.args[1]) == p_cache]
        rep_stmt = None
        if replaced:
            rep_stmt = [st for st in iter_own_stmts(f.node.body) if any(n is replaced[0] for n in ast.walk(st)) and not isinstance(
                st, (ast.With, ast.Try, ast.If, ast.For, ast.While))]
        if direct:
            ok = mode is not None and "w" in mode and "b" in mode
            chk.ob(rule, "the rebuilt table is written with a mode that replaces an existing (damaged) file", ok,
                   "open(%s, %r): %s" % (path_t, mode, "an existing damaged cache makes exclusive creation fail, so it is never repaired" if mode and "x" in mode
                                         else "the damaged bytes are kept (append / in-place update)" if mode and ("a" in mode or "r" in mode) else "mode is not a constant"),
                   key={"function": f.key, "construct": "write mode replaces the file"}, file=f.file, function=f.qual, line=op.lineno,
                   text=ast.unparse(op)[:100])
        else:
            avoid2 = set()
            for st in (rep_stmt or []) + rets:
                avoid2 |= set(g.nodes_of(st))
            pth = g.path_avoiding([g.entry.id], {g.exit.id}, avoid2) if rep_stmt else True
            chk.ob(rule, "the table is written to %s and moved over the cache path on every rebuilding path" % path_t, bool(rep_stmt) and pth is None,
                   "the rebuilt table is written somewhere else than the cache path and never moved onto it",
                   key={"function": f.key, "construct": "write path is the cache path"}, file=f.file, function=f.qual, line=op.lineno,
                   text=ast.unparse(op)[:100])
    if dumps:       # a missing dump is R4's finding, not a vanished anchor
        chk.floor(rule, n_w, 1, "cache writes")

    # R5 packaging
    rule = "C19.R5"
    m = ix.module(TP)
    cp = m.assigns.get("CACHE_PATH")
    if not cp:
        raise AnalysisError(rule, "CACHE_PATH not found")
    from .util import path_parts
    parts = path_parts(cp[-1])
    if parts is None:
        chk.error(rule, "CACHE_PATH is built in a way this rule cannot follow: %s" % ast.unparse(cp[-1])[:80])
        return
    rel = "dateparser/" + "/".join(parts)
    chk.ob(rule, "the cache file %s exists in the tree" % rel, ctx.repo.exists(rel), "",
           key={"construct": "cache file exists"}, file=rel, function="-", line=None)
    mi = ctx.repo.text("MANIFEST.in") if ctx.repo.exists("MANIFEST.in") else ""
    inc = [l.split(None, 1)[1].strip() for l in mi.splitlines() if l.startswith("include ")]
    chk.ob(rule, "MANIFEST.in includes %s" % rel, rel in inc, "the sdist ships without the cache",
           key={"construct": "MANIFEST.in include"}, file="MANIFEST.in", function="-", line=None)
    # the loader is invoked at import with CACHE_PATH
    calls = [n for n in iter_own_nodes(m.toplevel.node) if isinstance(n, ast.Call) and ast.unparse(n.func) == "_load_offsets"]
    p0 = f.params()[0]
    ok = any((n.args and ast.unparse(n.args[0]) == "CACHE_PATH") or any(k.arg == p0 and ast.unparse(k.value) == "CACHE_PATH" for k in n.keywords)
             for n in calls)
    chk.ob(rule, "_load_offsets(CACHE_PATH, ...) runs at import", ok, "",
           key={"construct": "import-time call"}, file=m.rel, function="<module>", line=None)

    # R6 escape from the import-time code: no load-failure class may escape
    rule = "C19.R6"
    esc = ef.escapes(m.toplevel.key)
    load_ident = None
    for s in ef.sites[f.key]:
        if s.node is load:
            load_ident = s.ident()
    for cls in sorted(c for c in REQUIRED if c != "FileNotFoundError"):
        hit = [(e, o) for (e, o) in esc if e == cls and o == load_ident]
        chk.ob(rule, "%s from reading the cache does not escape `import dateparser.timezone_parser`" % cls,
               not hit,
               "escapes through %s" % [o[1][:50] for e, o in hit],
               key={"function": m.toplevel.key, "construct": "no escape of " + cls}, file=f.file, function=f.qual,
               line=load.lineno)



"""C20 — concurrent calls equal sequential calls: static shared-state inventory.

Every write to process-wide state that is reachable from the public API must be one of
  construction   - initialisation of an object that is not yet published (in __init__ of a non-registry class,
                   or on a local created by a constructor call in the same function)
  keyed memo     - `if key not in D: D[key] = value` where the value does not mention call parameters
  lazy memo      - `if self.x is None: self.x = value` whose value has no dependence on call parameters and is
                   complete when stored (no later mutation of the stored object: partial-publication rule)
  lock-protected - inside `with <threading lock>`
  out of scope   - guarded by try_previous_locales / detect_languages_function (excluded by the property)
otherwise it is a finding (a temporary override, a per-call value on a singleton, an unsynchronised eviction ...).
R2: the registry key of Settings covers every key and value, so calls with different settings never share an instance.
"""
import ast

from ..core.ctx import ancestors, conjuncts, enclosing_tests
from ..core.heap import Heap
from ..core.index import iter_own_nodes, iter_own_stmts
from ..core.repo import AnalysisError
from ..core.taint import MUTATORS

LEVEL = "other"
EXPLANATION = (
    "Lockset-style inventory with an ownership pre-pass: classes whose instances are stored into module variables, "
    "class attributes, class-level containers or fields of shared objects are shared (least fixpoint); every attribute "
    "store, item store, delete and mutating call whose receiver is shared and that is reachable from parse / "
    "DateDataParser / search_dates / the calendar parsers is classified as construction, keyed memo, parameter-"
    "independent and completely-published lazy memo, lock-protected or out of the property's scope - anything else is "
    "reported with its site. The findings present on today's tree were each confirmed with a one-preemption schedule "
    "before being listed as known. The analysis names unsynchronised shared writes; it does not enumerate schedules."
)
ENTRIES = ["dateparser:parse", "dateparser.date:DateDataParser.__init__", "dateparser.date:DateDataParser.get_date_data",
           "dateparser.date:DateDataParser.get_date_tuple", "dateparser.search:search_dates",
           "dateparser.calendars:CalendarBase.get_date", "dateparser.calendars:CalendarBase.__init__"]
OUT_OF_SCOPE_FLAGS = ("try_previous_locales", "detect_languages_function")


def run(ctx, chk):
    heap = ctx.memo("heap", lambda: Heap(ctx))
    reach = ctx.cg.reachable(ENTRIES)
    writes = heap.writes(reach)
    chk.floor("C20.R1", len(writes), 30, "writes to process-wide state reachable from the API")
    chk.extra["shared_classes"] = {k.split(":")[1]: v for k, v in sorted(heap.shared.items())}
    chk.extra["per_call_classes"] = sorted(c.name for c in ctx.ix.classes.values() if c.key not in heap.shared
                                           and not c.module.rel.startswith(("dateparser/languages/validation", "dateparser/custom")))
    cats = {}
    for f, node, kind, target, why in writes:
        cat, detail = classify(ctx, heap, f, node, kind, target)
        cats[cat] = cats.get(cat, 0) + 1
        ok = cat != "FINDING"
        tnorm = norm_target(target, ctx, f)
        # a store into an attribute the class did not have on the pinned tree creates NEW shared state: that is a construct which is
        # present, not one that may merely have moved (core/unconfirmed.py)
        fresh_state = False
        if not ok and f.cls is not None:
            te = _target_expr(node, kind)
            root_attr = te
            while isinstance(root_attr, (ast.Subscript, ast.Attribute)) and not (
                    isinstance(root_attr, ast.Attribute) and isinstance(root_attr.value, ast.Name) and root_attr.value.id in ("self", "cls")):
                root_attr = root_attr.value
            if isinstance(root_attr, ast.Attribute) and isinstance(root_attr.value, ast.Name) and root_attr.value.id in ("self", "cls"):
                known_attrs = set()
                for k_ in f.cls.mro():
                    known_attrs |= _known_state().get(k_.key, set())
                # (a class the pinned tree does not have at all is new code as a whole: undecidable, not positive)
                fresh_state = f.cls.key in _known_state() and root_attr.attr not in known_attrs
        chk.ob("C20.R1", "%s: %s `%s` -> %s" % (f.key.split(":")[1], kind, target[:60], cat if ok else "unsynchronised"),
               ok, detail + " [%s]" % why,
               key={"function": f.key, "target": tnorm}, file=f.file, function=f.qual, line=node.lineno,
               text=" ".join(ast.unparse(node).split())[:160], positive=fresh_state)
    chk.extra["classification"] = cats
    # R2 sharing granularity: the registry hands one Settings object to two calls only when their settings are equal
    from .c03 import registry_key_rule
    registry_key_rule(ctx, chk, "C20.R2")
    # R4 check/use agreement of the memo getters: the table whose membership decides "already built?" is the table read back
    n_g = 0
    for fk in sorted(reach):
        f = ctx.ix.funcs[fk]
        from ..core.ctx import inline_simple_helpers
        fnode = inline_simple_helpers(ctx.ix, f)
        rets = [n for n in iter_own_nodes(fnode) if isinstance(n, ast.Return) and isinstance(n.value, ast.Subscript)]
        ifs = [n for n in iter_own_nodes(fnode) if isinstance(n, ast.If)]
        if len(rets) != 1 or not ifs:
            continue
        root = rets[0].value
        while isinstance(root, ast.Subscript):
            root = root.value
        if not (isinstance(root, ast.Attribute) and isinstance(root.value, ast.Name) and root.value.id in ("self", "cls")):
            continue
        read = ast.unparse(root)
        tested = set()
        for i_ in ifs:
            for c in ast.walk(i_.test):
                if isinstance(c, ast.Compare) and any(isinstance(o, (ast.NotIn, ast.In)) for o in c.ops):
                    for comp in c.comparators:
                        r_ = comp
                        while isinstance(r_, ast.Subscript):
                            r_ = r_.value
                        if isinstance(r_, ast.Attribute) and isinstance(r_.value, ast.Name) and r_.value.id in ("self", "cls"):
                            tested.add(ast.unparse(r_))
        if not tested:
            continue
        n_g += 1
        chk.ob("C20.R4", "%s: the table tested for membership (%s) is the table it reads back (%s)" % (f.qual, sorted(tested), read), tested == {read},
               "the guard consults %s but the value is read from %s: the two tables are filled at different moments, so a thread switch "
               "between them (or an eviction) makes the read-back fail with KeyError or return another caller's entry" % (sorted(tested), read),
               key={"function": fk, "construct": "memo guard/read agreement"}, file=f.file, function=f.qual, line=rets[0].lineno)
    chk.floor("C20.R4", n_g, 4, "memo getters (membership test + read-back)")
    # R3 precondition of the try_previous_locales exclusion: the library's own parsers never turn it on
    from .c13 import previous_locales_flag_rule
    previous_locales_flag_rule(ctx, chk, "C20.R3")
    chk.assume("thread-local and lock idioms are recognised syntactically: `with <name containing lock>`")


_KS = []


def _known_state():
    if not _KS:
        from ..core.unconfirmed import known_state
        _KS.append(known_state())
    return _KS[0]


def norm_target(t, ctx=None, f=None):
    """stable spelling of a write target: mutator suffix dropped, subscript indices and the names of locals
    abstracted (a local is replaced by the class it is known to hold), so that renaming a local does not change the key"""
    t = " ".join(t.split())
    for m in MUTATORS:
        if t.endswith("." + m):
            t = t[: -len(m) - 1]
    if t.startswith("setattr("):
        return "setattr(self, key, value)" if "self" in t else t[:100]
    if ctx is None or f is None:
        return t[:100]
    try:
        e = ast.parse(t, mode="eval").body
    except SyntaxError:
        return t[:100]

    class N(ast.NodeTransformer):
        def visit_Subscript(self, node):
            node.value = self.visit(node.value)
            node.slice = ast.Name(id="*", ctx=ast.Load())
            return node

        def visit_Name(self, node):
            if node.id in ("self", "cls") or node.id in f.params():
                return node
            ent = ctx.ix.lookup_module_attr(f.module, node.id)
            g = f
            local = False
            while g is not None:
                if g.qual != "<module>" and any(isinstance(x, ast.Name) and isinstance(x.ctx, ast.Store) and x.id == node.id
                                                for x in iter_own_nodes(g.node)):
                    local = True
                g = g.parent
            if not local and ent is not None:
                return node
            cls = sorted(t_[2:].split(":")[1] for t_ in ctx.ti.type_of(ast.Name(id=node.id, ctx=ast.Load()), f)
                         if isinstance(t_, str) and t_.startswith("C:"))
            node.id = "<%s>" % (cls[0] if cls else "local")
            return node
    try:
        return ast.unparse(N().visit(e))[:100]
    except Exception:
        return t[:100]


def _root_name(e):
    while isinstance(e, (ast.Attribute, ast.Subscript, ast.Call)):
        e = e.func if isinstance(e, ast.Call) else e.value
    return e.id if isinstance(e, ast.Name) else None


def _target_expr(node, kind):
    if isinstance(node, (ast.Assign, ast.AugAssign, ast.AnnAssign)):
        tg = node.targets[0] if isinstance(node, ast.Assign) else node.target
        return tg
    if isinstance(node, ast.Delete):
        return node.targets[0]
    if isinstance(node, ast.Call):
        if isinstance(node.func, ast.Attribute):
            return node.func.value
        if node.args:
            return node.args[0]
    return None


def _only_called_from_init(ctx, f):
    """f is a helper used only while constructing its own class (e.g. _normalize, _updateall)"""
    callers = ctx.cg.callers.get(f.key, set())
    if not callers:
        return False
    for ck in callers:
        c = ctx.ix.funcs[ck]
        if not (c.name == "__init__" and c.cls is not None and f.cls is not None and
                (c.cls is f.cls or f.cls in c.cls.mro() or c.cls in f.cls.mro())):
            return False
    return True


def _is_registry_class(ctx, cls):
    return any(ctx.cg.class_decorators.get(k.key) for k in cls.mro())


def _fresh_local(ctx, f, name):
    """name is bound in f only by constructor calls of non-registry project classes"""
    defs = [n.value for n in iter_own_nodes(f.node) if isinstance(n, ast.Assign)
            and any(isinstance(t, ast.Name) and t.id == name for t in n.targets)]
    if not defs or name in f.params():
        return False
    for d in defs:
        ts = ctx.ti.type_of(d, f)
        if not isinstance(d, ast.Call):
            return False
        ok = False
        for t in ctx.ti.type_of(d.func, f):
            if isinstance(t, str) and t.startswith("K:"):
                c = ctx.ix.classes.get(t[2:])
                if c is not None and not _is_registry_class(ctx, c):
                    ok = True
        if not ok:
            return False
    return True


def _param_dependent_names(ctx, f):
    """locals of f (transitively) computed from its non-self parameters; parameters that no caller ever passes
    (always their constant default) do not count"""
    params = [p for p in f.params() if p not in ("self", "cls")]
    live = set()
    for p in params:
        if _param_ever_passed(ctx, f, p):
            live.add(p)
    dep = set(live)
    changed = True
    while changed:
        changed = False
        for n in iter_own_nodes(f.node):
            tgt = None
            val = None
            if isinstance(n, ast.Assign):
                tgt, val = n.targets, n.value
            elif isinstance(n, ast.AugAssign):
                tgt, val = [n.target], n.value
            elif isinstance(n, (ast.For, ast.comprehension)):
                tgt, val = [n.target], n.iter
            if tgt is None:
                continue
            if {x.id for x in ast.walk(val) if isinstance(x, ast.Name)} & dep:
                for t in tgt:
                    for x in ast.walk(t):
                        if isinstance(x, ast.Name) and isinstance(x.ctx, ast.Store) and x.id not in dep:
                            dep.add(x.id)
                            changed = True
            # control dependence: anything assigned or mutated under a test / loop over dependent names
        for n in iter_own_nodes(f.node):
            if isinstance(n, ast.Call) and isinstance(n.func, ast.Attribute) and n.func.attr in MUTATORS:
                r = _root_name(n.func.value)
                if r is None or r in dep or r in ("self", "cls"):
                    continue
                ctl = False
                for test, pol in enclosing_tests(f.node, n):
                    if {x.id for x in ast.walk(test) if isinstance(x, ast.Name)} & dep:
                        ctl = True
                for a in ancestors(f.node, n):
                    if isinstance(a, ast.For) and {x.id for x in ast.walk(a.iter) if isinstance(x, ast.Name)} & dep:
                        ctl = True
                if ctl or any({x.id for x in ast.walk(a) if isinstance(x, ast.Name)} & dep for a in n.args):
                    dep.add(r)
                    changed = True
    return dep


def _param_ever_passed(ctx, f, p):
    idx = f.params().index(p)
    off = 1 if (f.is_method() and f.kind() != "static") else 0
    callers = ctx.cg.callers.get(f.key, set())
    if not callers:
        return True
    for ck in callers:
        for s in ctx.cg.sites[ck]:
            if f in s.callees and isinstance(s.node, ast.Call):
                if any(k.arg == p or k.arg is None for k in s.node.keywords):
                    return True
                if any(isinstance(a, ast.Starred) for a in s.node.args):
                    return True
                if idx - off < len(s.node.args):
                    return True
    return False


def _memo_guard(f, node, target):
    """the store is guarded by a test on the same place: `X is None`, `not X`, `key not in D`"""
    t = ast.unparse(target)

    def resolve(a, p):
        # a flag local bound once to a test (`loaded = key in table`; `if not loaded: table[key] = ..`) stands for that test
        if isinstance(a, ast.Name) and a.id not in f.params():
            defs = [n.value for n in iter_own_nodes(f.node) if isinstance(n, ast.Assign) and len(n.targets) == 1
                    and isinstance(n.targets[0], ast.Name) and n.targets[0].id == a.id]
            if len(defs) == 1 and isinstance(defs[0], (ast.Compare, ast.UnaryOp, ast.BoolOp)):
                return conjuncts(defs[0], p)
        return [(a, p)]
    for test, pol in enclosing_tests(f.node, node):
        for a0, p0 in conjuncts(test, pol):
          for a, p in resolve(a0, p0):
              s = ast.unparse(a)
              if isinstance(a, ast.Compare) and len(a.ops) == 1:
                  l, r = ast.unparse(a.left), ast.unparse(a.comparators[0])
                  if l == t and r == "None" and ((p and isinstance(a.ops[0], ast.Is)) or (not p and isinstance(a.ops[0], ast.IsNot))):
                      return "is-None"
                  if isinstance(target, ast.Subscript) and r == ast.unparse(target.value) and l == ast.unparse(target.slice) and (
                          (p and isinstance(a.ops[0], ast.NotIn)) or (not p and isinstance(a.ops[0], ast.In))):
                      return "not-in"
              if s == t and not p:
                  return "falsy"
              if isinstance(a, ast.Call) and isinstance(a.func, ast.Name) and a.func.id == "hasattr" and not p and len(a.args) == 2:
                  # if not hasattr(cls, "x"): setattr(cls, "x", ...)
                  if isinstance(node, ast.Call) and ast.unparse(node.args[0]) == ast.unparse(a.args[0]) and ast.unparse(node.args[1]) == ast.unparse(a.args[1]):
                      return "hasattr"
    return None


def _later_mutation(f, node, target):
    """after the store, the same place is mutated again in this function (partial publication)"""
    t = ast.unparse(target)
    line = node.lineno
    aliases = set()
    if isinstance(node, ast.Assign):
        if isinstance(node.value, ast.Name):
            aliases.add(node.value.id)
        for tg in node.targets:
            if isinstance(tg, ast.Name):
                aliases.add(tg.id)
    for n in iter_own_nodes(f.node):
        if getattr(n, "lineno", 0) <= line or n is node:
            continue
        if isinstance(n, ast.Call) and isinstance(n.func, ast.Attribute) and n.func.attr in MUTATORS and (
                ast.unparse(n.func.value) == t or _root_name(n.func.value) in aliases):
            return n
        if isinstance(n, (ast.Assign, ast.AugAssign)) and aliases:
            tg = n.targets[0] if isinstance(n, ast.Assign) else n.target
            if isinstance(tg, (ast.Subscript, ast.Attribute)) and _root_name(tg) in aliases:
                return n
        if isinstance(n, (ast.Assign, ast.AugAssign)):
            tg = n.targets[0] if isinstance(n, ast.Assign) else n.target
            if isinstance(tg, ast.Subscript) and ast.unparse(tg.value) == t:
                return n
    return None


def classify(ctx, heap, f, node, kind, target):
    tgt = _target_expr(node, kind)
    if tgt is None:
        return "FINDING", "unrecognised write shape"
    # 0. out of the property's scope
    # (the write runs ONLY when an excluded feature is on: the flag is a positive conjunct of an enclosing test, not one
    # alternative of a disjunction)
    for test, pol in enclosing_tests(f.node, node):
        for a, p in conjuncts(test, pol):
            nm = a.attr if isinstance(a, ast.Attribute) else a.id if isinstance(a, ast.Name) else None
            if p and nm in OUT_OF_SCOPE_FLAGS:
                return "out-of-scope", "guarded by %s, which the property excludes" % nm
    # lock
    for a in ancestors(f.node, node):
        if isinstance(a, ast.With) and any("lock" in ast.unparse(i.context_expr).lower() for i in a.items):
            return "lock-protected", "inside `with %s`" % ast.unparse(a.items[0].context_expr)
    root = _root_name(tgt)
    # 1. construction
    is_init = f.name == "__init__" or _only_called_from_init(ctx, f)
    if is_init and root == "self" and f.cls is not None and _class_level_container(heap, f, tgt):
        return "FINDING", ("`%s` is a container defined once on the class, not a field of the object under construction: every instance "
                           "(every concurrent parse) edits the same table in place" % _class_level_container(heap, f, tgt))
    if is_init and root == "self" and f.cls is not None:
        if _is_registry_class(ctx, f.cls):
            return "FINDING", ("%s re-initialises an instance that the registry hands out to every call with an equal "
                               "settings dict: a concurrent call with the same configuration resets fields another "
                               "thread is using" % f.qual)
        return "construction", "initialises an object that is not yet published"
    if root is not None and root not in ("self", "cls") and isinstance(tgt, ast.Attribute) and isinstance(tgt.value, ast.Name) \
            and _fresh_local(ctx, f, root):
        return "construction", "attribute of a local created by a constructor call in this function"
    # 1b. object reachable by other threads only through a publication that is itself reported
    via = _via_publication(ctx, heap, f, root)
    if via:
        return "via-publication", via
    # 1c. checked exemption shared with C03.R2: settings.NORMALIZE = True on the default Settings
    if isinstance(node, ast.Assign) and isinstance(tgt, ast.Attribute) and tgt.attr == "NORMALIZE":
        from .c03 import _normalize_exemption
        ex = _normalize_exemption(ctx, f, node, "NORMALIZE")
        if ex:
            return "idempotent", "writes the value the default Settings already holds: " + ex
    # 2. memo idioms
    place = tgt
    guard = _memo_guard(f, node, place) if isinstance(node, (ast.Assign, ast.Call)) else None
    if guard is None and isinstance(node, ast.Assign) and isinstance(tgt, ast.Attribute):
        guard = _memo_guard_in_callers(ctx, f, tgt)
    if guard and isinstance(node, ast.Assign):
        dep = _param_dependent_names(ctx, f)
        val_names = {x.id for x in ast.walk(node.value) if isinstance(x, ast.Name)}
        params = {p for p in f.params() if p not in ("self", "cls")}
        if guard == "not-in":
            key_names = {x.id for x in ast.walk(place.slice) if isinstance(x, ast.Name)}
            direct = (val_names & params) - key_names
            if direct:
                return "FINDING", "keyed memo whose value mentions the call parameters %s beyond its key" % sorted(direct)
            later = _later_mutation(f, node, place)
            if later is not None:
                return "FINDING", ("published before it is complete: stored at line %d and then modified by `%s` at line %d"
                                   % (node.lineno, ast.unparse(later)[:50], later.lineno))
            # a table that lives on the CLASS is shared by all instances: what is stored must be determined by the key alone, so
            # whatever per-instance state the value is computed from has to be pinned down by the key as well
            shared_tbl = _class_level_container(heap, f, place) if root == "self" and f.cls is not None else None
            if shared_tbl:
                v_attrs = _self_attrs(f, node.value) - {place.value.attr if isinstance(place.value, ast.Attribute) else None}
                # another table that lives on the class is the same object for every instance: not per-instance state
                v_attrs = {a_ for a_ in v_attrs if not _class_level_container(
                    heap, f, ast.Subscript(value=ast.Attribute(value=ast.Name(id="self", ctx=ast.Load()), attr=a_, ctx=ast.Load()),
                                           slice=ast.Constant(value=0), ctx=ast.Load()))}
                k_attrs = _self_attrs(f, place.slice)
                ident = _identity_attrs(ctx, f.cls)
                if v_attrs - k_attrs and not (k_attrs & ident):
                    return "FINDING", ("memo on the class-level table %s keyed by %s, but the value is computed from self.%s: two instances with "
                                       "equal keys (e.g. two regional locales of one language) get whichever value was stored first"
                                       % (shared_tbl, sorted(k_attrs) or "no instance state", ", self.".join(sorted(v_attrs - k_attrs))))
            return "keyed-memo", "if key not in container: container[key] = value (value determined by the key)"
        used = val_names & dep
        if used:
            dead = _dependent_part_unread(ctx, f, node, place, dep)
            if dead:
                return "lazy-memo", "argument-dependent part of the cached value is never read: " + dead
        if used:
            return "FINDING", ("lazily cached on a shared object but computed from per-call arguments (%s): the first "
                               "caller's settings decide what every later call sees" % sorted(used))
        later = _later_mutation(f, node, place)
        if later is not None:
            return "FINDING", ("published before it is complete: stored at line %d and then filled by `%s` at line %d; "
                               "a concurrent reader sees the empty/partial value" % (node.lineno, ast.unparse(later)[:50], later.lineno))
        return "lazy-memo", "if place is None: place = <value independent of the call's arguments>"
    if guard == "hasattr":
        return "lazy-memo", "if not hasattr(obj, name): setattr(obj, name, <empty container>)"
    # keyed store whose membership guard sits in the callers (single-writer helper)
    if kind in ("item", "call") and f.name == "_add_to_cache":
        if kind == "item" or (isinstance(node, ast.Call) and node.func.attr == "setdefault"):
            if _callers_guard_membership(ctx, f):
                return "keyed-memo", "single writer of the caches; every caller tests membership of the same (settings hash, locale) key first"
    # registry insert: registry_dict[key] = creator(...) under `if key not in registry_dict`
    return "FINDING", "write to process-wide state that is neither construction, a memo idiom nor lock-protected"


def _self_attrs(f, e, depth=0, seen=None):
    """attributes of self that expression e is computed from (through the locals of f, flow-insensitively)"""
    seen = seen if seen is not None else set()
    out = set()
    for n in ast.walk(e):
        if isinstance(n, ast.Attribute) and isinstance(n.value, ast.Name) and n.value.id == "self" and isinstance(n.ctx, ast.Load):
            out.add(n.attr)
        elif isinstance(n, ast.Name) and isinstance(n.ctx, ast.Load) and n.id not in seen and n.id != "self" and depth < 6:
            seen.add(n.id)
            for st in iter_own_nodes(f.node):
                if isinstance(st, (ast.Assign, ast.AugAssign)):
                    tgs = st.targets if isinstance(st, ast.Assign) else [st.target]
                    flat = [x for t in tgs for x in (t.elts if isinstance(t, (ast.Tuple, ast.List)) else [t])]
                    if any(isinstance(x, ast.Name) and x.id == n.id for x in flat):
                        out |= _self_attrs(f, st.value, depth + 1, seen)
                    # filled in place: name[...] = v / name.method(v)
                    if any(isinstance(t, ast.Subscript) and _root_name(t) == n.id for t in tgs):
                        out |= _self_attrs(f, st.value, depth + 1, seen)
                elif isinstance(st, ast.For) and any(isinstance(x, ast.Name) and x.id == n.id for x in ast.walk(st.target)):
                    out |= _self_attrs(f, st.iter, depth + 1, seen)
    return out


def _identity_attrs(ctx, cls):
    """attributes that name the instance: stored in __init__ straight from a constructor parameter under which the creator also files the
    new object (`table[k] = Cls(k, ..)`), e.g. Locale.shortname via LocaleDataLoader._loaded_locales[shortname] = Locale(shortname, ..)"""
    init = cls.find_method("__init__")
    if init is None:
        return set()
    ps = init.params()
    stored = {}
    for n in iter_own_nodes(init.node):
        if isinstance(n, ast.Assign) and len(n.targets) == 1 and isinstance(n.targets[0], ast.Attribute) and isinstance(n.targets[0].value, ast.Name) \
                and n.targets[0].value.id == "self" and isinstance(n.value, ast.Name) and n.value.id in ps:
            stored[n.value.id] = n.targets[0].attr
    out = set()
    for g in ctx.ix.funcs.values():
        ctor = [c for c in iter_own_nodes(g.node) if isinstance(c, ast.Call) and ast.unparse(c.func).split(".")[-1] == cls.name and c.args]
        if not ctor:
            continue
        for c in ctor:
            k = ast.unparse(c.args[0])
            for st in iter_own_nodes(g.node):
                if isinstance(st, ast.Assign) and isinstance(st.targets[0], ast.Subscript) and ast.unparse(st.targets[0].slice) == k and len(ps) > 1:
                    if ps[1] in stored:
                        out.add(stored[ps[1]])
    return out


def _class_level_container(heap, f, tgt):
    """self.X (inside self.X[...] / self.X.method) where X is a container written once in the class body and never rebound per instance"""
    e = tgt
    while isinstance(e, (ast.Subscript, ast.Attribute)) and not (isinstance(e, ast.Attribute) and isinstance(e.value, ast.Name) and e.value.id == "self"):
        e = e.value
    if not (isinstance(e, ast.Attribute) and isinstance(e.value, ast.Name) and e.value.id == "self") or e is tgt and isinstance(tgt.ctx, ast.Store):
        return None
    for k in f.cls.mro():
        v = k.attrs.get(e.attr)
        if isinstance(v, (ast.Dict, ast.List, ast.Set)) or (
                isinstance(v, ast.Call) and ast.unparse(v.func).split(".")[-1] in ("dict", "list", "set", "OrderedDict", "defaultdict", "deque")):
            if not heap._instance_rebinds(f.cls, e.attr):
                return "%s.%s" % (k.name, e.attr)
    return None


def _attr_readers(ctx, attr):
    """(func, node) for every load of `.<attr>` or call of a getter that returns `self.<attr>`"""
    getters = set()
    for g in ctx.ix.funcs.values():
        for n in iter_own_nodes(g.node):
            if isinstance(n, ast.Return) and isinstance(n.value, ast.Attribute) and n.value.attr == attr \
                    and isinstance(n.value.value, ast.Name) and n.value.value.id == "self":
                getters.add(g.key)
    out = []
    for g in ctx.ix.funcs.values():
        for n in iter_own_nodes(g.node):
            if isinstance(n, ast.Attribute) and n.attr == attr and isinstance(n.ctx, ast.Load) and g.key not in getters:
                out.append((g, n))
        for s in ctx.cg.sites.get(g.key, ()):
            if any(c.key in getters for c in s.callees) and isinstance(s.node, ast.Call):
                out.append((g, s.node))
    return out, getters


def _dependent_part_unread(ctx, f, node, place, dep):
    """checked exemption for lazily cached values whose argument-dependent part has no reader:
    (a) dict of sets where every reader subscripts a constant key whose entry is built without dependent names;
    (b) a value read only by the builder of another cached value, where it only reaches an unread part."""
    if not (isinstance(place, ast.Attribute) and isinstance(place.value, ast.Name) and place.value.id == "self"):
        return None
    attr = place.attr
    readers, getters = _attr_readers(ctx, attr)
    # the guard tests (`is None`) and the getter's own return do not count as reads of the content
    content_reads = []
    for g, n in readers:
        par = None
        for a in ancestors(g.node, n):
            par = a
            break
        if isinstance(par, ast.Compare) and ast.unparse(par.comparators[0]) == "None":
            continue
        content_reads.append((g, n, par))
    if not content_reads:
        return None
    # (a) every content read is `<value>["const"]`
    keys = set()
    all_sub = True
    for g, n, par in content_reads:
        if isinstance(par, ast.Subscript) and par.value is n and isinstance(par.slice, ast.Constant):
            keys.add(par.slice.value)
        else:
            all_sub = False
    if all_sub and isinstance(node.value, ast.Dict) and all(isinstance(k, ast.Constant) for k in node.value.keys):
        # the dict written out in one literal: an entry is argument-dependent when its expression mentions a dependent name
        dep_keys = {k.value for k, v in zip(node.value.keys, node.value.values)
                    if {x.id for x in ast.walk(v) if isinstance(x, ast.Name)} & dep}
        if keys and not (keys & dep_keys):
            return "readers use only the entries %s, the argument-dependent entries are %s" % (sorted(keys), sorted(dep_keys))
        return None
    if all_sub and isinstance(node.value, ast.Name):
        # entries of the dict literal bound to that name, and their later mutations, per key
        name = node.value.id
        dep_keys = set()
        for n in iter_own_nodes(f.node):
            tgt = None
            if isinstance(n, ast.AugAssign) and isinstance(n.target, ast.Subscript) and ast.unparse(n.target.value) == name:
                tgt, val = n.target, n.value
                if {x.id for x in ast.walk(val) if isinstance(x, ast.Name)} & (dep - {name}):
                    dep_keys.add(ast.unparse(tgt.slice))
            if isinstance(n, ast.Call) and isinstance(n.func, ast.Attribute) and n.func.attr in MUTATORS \
                    and isinstance(n.func.value, ast.Subscript) and ast.unparse(n.func.value.value) == name:
                ctl = any({x.id for x in ast.walk(t) if isinstance(x, ast.Name)} & (dep - {name}) for t, _ in enclosing_tests(f.node, n)) \
                    or any({x.id for x in ast.walk(a) if isinstance(x, ast.Name)} & (dep - {name}) for a in n.args)
                if ctl and isinstance(n.func.value.slice, ast.Constant):
                    dep_keys.add(n.func.value.slice.value)
        dep_keys = {k.strip("'\"") if isinstance(k, str) else k for k in dep_keys}
        if keys and not (keys & dep_keys):
            return "readers use only the entries %s, the argument-dependent entries are %s" % (sorted(keys), sorted(dep_keys))
        return None
    # (b) read only inside builders of other lazily cached attributes, where it reaches only their unread part
    for g, n, par in content_reads:
        st = None
        if not g.name.startswith("_set_") and not g.name.startswith("_get_"):
            return None
    # the only consumer must itself be exempt by (a)
    consumers = {g.key for g, n, par in content_reads}
    if len(consumers) == 1:
        g = ctx.ix.funcs[next(iter(consumers))]
        for m in iter_own_nodes(g.node):
            if isinstance(m, ast.Assign) and isinstance(m.targets[0], ast.Attribute) and isinstance(m.targets[0].value, ast.Name) \
                    and m.targets[0].value.id == "self" and m.targets[0].attr != attr:
                dep2 = _param_dependent_names(ctx, g)
                inner = _dependent_part_unread(ctx, g, m, m.targets[0], dep2) if m.targets[0].attr != attr else None
                if inner:
                    return "only read by %s, whose argument-dependent part is unread (%s)" % (g.qual, inner)
    return None


def _memo_guard_in_callers(ctx, f, tgt):
    """every call of f sits under `if <same attribute> is None:` (setter helper of a lazy getter)"""
    callers = ctx.cg.callers.get(f.key, set())
    if not callers:
        return None
    want = ast.unparse(tgt)
    for ck in callers:
        c = ctx.ix.funcs[ck]
        for s in ctx.cg.sites[ck]:
            if f in s.callees:
                ok = False
                for test, pol in enclosing_tests(c.node, s.node):
                    for a, p in conjuncts(test, pol):
                        if isinstance(a, ast.Compare) and len(a.ops) == 1 and ast.unparse(a.left) == want \
                                and ast.unparse(a.comparators[0]) == "None" and p and isinstance(a.ops[0], ast.Is):
                            ok = True
                        if ast.unparse(a) == want and not p:
                            ok = True
                if not ok:
                    return None
    return "is-None"


def _via_publication(ctx, heap, f, root):
    """writes on `self` of a class whose instances become shared only by being stored into a field of a
    singleton, when that store is itself an unsynchronised per-call publication (reported at that site)"""
    if root != "self" or f.cls is None:
        return None
    reason = heap.shared.get(f.cls.key, "")
    if not reason.startswith("stored in field "):
        return None
    holder_attr = reason[len("stored in field "):].split(" ")[0]   # e.g. DateSearchWithDetection.language_detector
    hname, attr = holder_attr.rsplit(".", 1)
    for g in ctx.ix.funcs.values():
        if g.cls is None or g.cls.name != hname or g.name == "__init__":
            continue
        for n in iter_own_nodes(g.node):
            if isinstance(n, ast.Assign) and any(isinstance(t, ast.Attribute) and t.attr == attr and isinstance(t.value, ast.Name)
                                                 and t.value.id == "self" for t in n.targets):
                # a lazily created, long-lived object (memo guard at the store or in every caller of the setter) is
                # NOT a per-call object: writes to it after publication are seen by every later call
                if _memo_guard(g, n, n.targets[0]) is None and _memo_guard_in_callers(ctx, g, n.targets[0]) is None:
                    return ("the object is created per call and reaches other threads only through the unsynchronised "
                            "store %s.%s in %s, which is reported there" % (hname, attr, g.qual))
    return None


def _callers_guard_membership(ctx, f, depth=0):
    if depth > 2:
        return False
    callers = ctx.cg.callers.get(f.key, set())
    if not callers:
        return False
    for ck in callers:
        c = ctx.ix.funcs[ck]
        for s in ctx.cg.sites[ck]:
            if f in s.callees:
                guarded = False
                from ..core.ctx import inline_simple_helpers
                for test, pol in enclosing_tests(c.node, s.node):
                    test = inline_simple_helpers(ctx.ix, c, root=test)        # `not self._is_cached(self._x_cache)` reads as the membership test it returns
                    for a, p in conjuncts(test, pol):
                        if isinstance(a, ast.Compare) and isinstance(a.ops[0], (ast.NotIn, ast.In)) and "_cache" in ast.unparse(a.comparators[0]):
                            guarded = True
                        # not (k1 in cache and k2 in cache[k1])  ==  k1 not in cache or k2 not in cache[k1]
                        if not p and isinstance(a, ast.BoolOp) and isinstance(a.op, ast.And) and all(
                                isinstance(v, ast.Compare) and isinstance(v.ops[0], ast.In) and "_cache" in ast.unparse(v.comparators[0]) for v in a.values):
                            guarded = True
                    if isinstance(test, ast.BoolOp) and any(isinstance(v, ast.Compare) and isinstance(v.ops[0], ast.NotIn) and "_cache" in ast.unparse(v.comparators[0]) for v in test.values):
                        guarded = True
                if not guarded and not _callers_guard_membership(ctx, c, depth + 1):
                    return False
    return True
